#!/usr/bin/env python3-vt
import json, sys, glob, jsonschema
jsonschema.validate(json.load(open('/verif/MANIFEST.json')), json.load(open('/root/.vp/MANIFEST.schema.json')))
print('manifest ok')
s = json.load(open('/root/.vp/EVIDENCE.schema.json'))
for f in sorted(glob.glob('/verif/evidence/*.json')):
    jsonschema.validate(json.load(open(f)), s); print('ok', f)
