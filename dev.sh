#!/bin/bash
# dev helper: ./dev.sh <pkg> <run-regex> [extra go test args]  (not used by registered checks)
pkg=$1; run=$2; shift 2
export GOTOOLCHAIN=local GOFLAGS=-mod=mod GOPROXY=off GOSUMDB=off VERIF_ROOT=/verif VERIF_OUT=/tmp/verif-dev-out
GO=/root/go/pkg/mod/golang.org/toolchain@v0.0.1-go1.25.0.linux-amd64/bin/go
mkdir -p $VERIF_OUT; rm -rf /verif/harness/$pkg/testdata/rapid
cd /verif/harness && $GO test -tags verif -count=1 -run "$run" ./$pkg/ "$@"
