module verifharness

go 1.25.0

require (
	github.com/bbockelm/cedar v0.0.0
	pgregory.net/rapid v1.3.0
)

require github.com/PelicanPlatform/classad v0.4.0

replace github.com/bbockelm/cedar => /repo
