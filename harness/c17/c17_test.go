// Package c17 decides property C17: the session cache, shared configurations
// and established streams are safe under concurrency. The schedule is owned by
// the Go runtime: this is randomised stress under the race detector.
package c17

import (
	"encoding/json"
	"context"
	"fmt"
	"net"
	"runtime"
	"sort"
	"strings"
	"sync"
	"sync/atomic"
	"testing"
	"time"

	"github.com/PelicanPlatform/classad/classad"
	"github.com/bbockelm/cedar/ccb"
	"github.com/bbockelm/cedar/client"
	"github.com/bbockelm/cedar/security"
	"github.com/bbockelm/cedar/server"
	"github.com/bbockelm/cedar/stream"
	"pgregory.net/rapid"

	"verifharness/kit"
)

func TestMain(m *testing.M) {
	// a deadlock in the shared state hangs a test instead of failing it: see kit/wedge.go
	kit.StartWedgeWatch("C17", "github.com/bbockelm/cedar/", 45*time.Second, 15*time.Second)
	kit.Main(m)
}

var ev = kit.Ev("C17")

func init() {
	ev.Rule("(a) rapid generates 2-16 per-goroutine programs of 20-200 cache operations (Store, Lookup, LookupNonExpired, LookupByCommand, MapCommand, RenewLease, IsExpired, Expiration, SetLastPeerVersion, Invalidate, InvalidateExpired, DebugDump, Snapshot, Size, " +
		"expiry flips through the hook) over 6 overlapping session ids and 8 command keys, with harness-side Gosched on a generated pattern and GOMAXPROCS in {1,2,4,16}; (b) 4-32 clients sharing ONE SecurityConfig object and one client cache connect at once " +
		"(client.ConnectAndAuthenticateWithConfig and bare Authenticators) to one server.Server, mixing fresh handshakes and resumptions, while a maintenance goroutine sweeps and dumps the caches; (c) one goroutine sends M messages while another receives M on the same encrypted Stream, both ends; " +
		"oracle: the Go race detector stays silent and, after quiescence, an id invalidated after its last store is unreachable by every lookup and every command route, Size matches, every handshake succeeded and the probe on ITS connection decrypts, every message arrives intact and in order; " +
		"distinct non-trivial = distinct unordered pairs of operation kinds whose executions really overlapped (measured with a global sequence counter)")
	ev.Assume("schedules are sampled, not enumerated: this check can demonstrate a race or a broken post-condition, it cannot show absence; a timing-dependent failure may not reproduce from its seed")
}

var seq int64

type opRec struct {
	kind       string
	id         int
	start, end int64
}

var kinds = []string{"Store", "Lookup", "LookupNonExpired", "LookupByCommand", "MapCommand", "RenewLease", "IsExpired", "Expiration", "SetLastPeerVersion", "Invalidate", "InvalidateExpired", "DebugDump", "Snapshot", "Size", "ExpireHook", "ExpirePast"}

type POp struct {
	K   int  `json:"k"`
	ID  int  `json:"id"`
	Cmd int  `json:"cmd"`
	Y   bool `json:"y"` // yield after
}

type Program struct {
	Procs int     `json:"procs"`
	Progs [][]POp `json:"progs"`
}

func sid(i int) string { return fmt.Sprintf("sess-%d", i) }

func newEntry(i int, lease time.Duration) *security.SessionEntry {
	pol := classad.New()
	_ = pol.Set("User", "u")
	return security.NewSessionEntry(sid(i), "<addr>", &security.KeyInfo{Data: kit.Pattern(32, uint32(i)), Protocol: "AES"}, pol, time.Now().Add(time.Hour), lease, "")
}

func runProgram(p Program) (string, map[string]bool) {
	kit.Current(p)
	old := runtime.GOMAXPROCS(p.Procs)
	defer runtime.GOMAXPROCS(old)
	cache := security.NewSessionCache()
	var mu sync.Mutex
	var recs []opRec
	var wg sync.WaitGroup
	start := make(chan struct{})
	for _, prog := range p.Progs {
		wg.Add(1)
		go func(prog []POp) {
			defer wg.Done()
			<-start
			var local []opRec
			for _, op := range prog {
				r := opRec{kind: kinds[op.K%len(kinds)], id: op.ID % 6}
				r.start = atomic.AddInt64(&seq, 1)
				id := sid(r.id)
				cmd := fmt.Sprint(op.Cmd % 8)
				switch r.kind {
				case "Store":
					cache.Store(newEntry(r.id, time.Minute))
				case "Lookup":
					if e, ok := cache.Lookup(id); ok {
						_ = e.ID()
					}
				case "LookupNonExpired":
					_, _ = cache.LookupNonExpired(id)
				case "LookupByCommand":
					if e, ok := cache.LookupByCommand("", "<addr>", cmd); ok {
						_ = e.KeyInfo()
					}
				case "MapCommand":
					cache.MapCommand("", "<addr>", cmd, id)
				case "RenewLease":
					if e, ok := cache.Lookup(id); ok {
						e.RenewLease()
					}
				case "IsExpired":
					if e, ok := cache.Lookup(id); ok {
						_ = e.IsExpired()
					}
				case "Expiration":
					if e, ok := cache.Lookup(id); ok {
						_ = e.Expiration()
					}
				case "SetLastPeerVersion":
					if e, ok := cache.Lookup(id); ok {
						e.SetLastPeerVersion("v")
						_ = e.LastPeerVersion()
					}
				case "Invalidate":
					cache.Invalidate(id)
				case "InvalidateExpired":
					cache.InvalidateExpired()
				case "DebugDump":
					_ = cache.DebugDump()
				case "Snapshot":
					for _, e := range cache.Snapshot() {
						_ = e.IsExpired()
					}
				case "Size":
					_ = cache.Size()
				case "ExpireHook":
					if e, ok := cache.Lookup(id); ok {
						e.VerifSetExpiration(time.Now().Add(time.Hour))
					}
				case "ExpirePast":
					if e, ok := cache.Lookup(id); ok {
						e.VerifSetExpiration(time.Now().Add(-time.Second))
					}
				}
				r.end = atomic.AddInt64(&seq, 1)
				local = append(local, r)
				if op.Y {
					runtime.Gosched()
				}
			}
			mu.Lock()
			recs = append(recs, local...)
			mu.Unlock()
		}(prog)
	}
	close(start)
	wg.Wait()
	// overlap measurement
	pairs := map[string]bool{}
	sort.Slice(recs, func(i, j int) bool { return recs[i].start < recs[j].start })
	for i := range recs {
		for j := i + 1; j < len(recs) && recs[j].start < recs[i].end; j++ {
			a, b := recs[i].kind, recs[j].kind
			if a > b {
				a, b = b, a
			}
			pairs[a+"||"+b] = true
		}
	}
	// post-conditions at quiescence
	for id := 0; id < 6; id++ {
		var lastInvStart int64 = -1
		var lastStoreEnd int64 = -1
		for _, r := range recs {
			if r.id != id {
				continue
			}
			if r.kind == "Invalidate" && r.start > lastInvStart {
				lastInvStart = r.start
			}
			if r.kind == "Store" && r.end > lastStoreEnd {
				lastStoreEnd = r.end
			}
		}
		gone := lastInvStart >= 0 && lastStoreEnd < lastInvStart // every store finished before the last invalidate began
		never := lastStoreEnd < 0
		if gone || never {
			if _, ok := cache.Lookup(sid(id)); ok {
				return fmt.Sprintf("session %s is still found by Lookup although it was invalidated after its last store (lost invalidation)", sid(id)), pairs
			}
			if _, ok := cache.LookupNonExpired(sid(id)); ok {
				return fmt.Sprintf("session %s is still found by LookupNonExpired after invalidation", sid(id)), pairs
			}
			for c := 0; c < 8; c++ {
				if e, ok := cache.LookupByCommand("", "<addr>", fmt.Sprint(c)); ok && e.ID() == sid(id) {
					return fmt.Sprintf("command %d still routes to invalidated session %s", c, sid(id)), pairs
				}
			}
		}
	}
	// the converse: a store that began after every invalidation and every forced expiry of its id had
	// finished is still there. Sweeps and LookupNonExpired only remove EXPIRED entries, so they are no
	// excuse, overlapping or not (a lookup that saw the old expired entry may not delete the fresh one).
	for id := 0; id < 6; id++ {
		var lastKill, lastStoreStart int64 = -1, -1
		for _, r := range recs {
			if r.id != id {
				continue
			}
			if (r.kind == "Invalidate" || r.kind == "ExpirePast") && r.end > lastKill {
				lastKill = r.end
			}
			if r.kind == "Store" && r.start > lastStoreStart {
				lastStoreStart = r.start
			}
		}
		if lastStoreStart > lastKill && lastStoreStart >= 0 {
			if _, ok := cache.Lookup(sid(id)); !ok {
				return fmt.Sprintf("session %s was stored after its last invalidation/expiry had finished, yet Lookup does not find it (a completed Store was lost)", sid(id)), pairs
			}
			if _, ok := cache.LookupNonExpired(sid(id)); !ok {
				return fmt.Sprintf("session %s was stored after its last invalidation/expiry had finished, yet LookupNonExpired does not find it", sid(id)), pairs
			}
		}
	}
	// Size, Snapshot and the lookups agree: expired entries may still be filed (they are swept lazily) but
	// are never handed out; everything else that is filed is found
	snap := cache.Snapshot()
	if cache.Size() != len(snap) {
		return fmt.Sprintf("Size()=%d but Snapshot has %d entries at quiescence", cache.Size(), len(snap)), pairs
	}
	filed := map[string]*security.SessionEntry{}
	for _, e := range snap {
		if filed[e.ID()] != nil {
			return fmt.Sprintf("Snapshot lists session %s twice", e.ID()), pairs
		}
		filed[e.ID()] = e
	}
	for id := 0; id < 6; id++ {
		e, ok := cache.Lookup(sid(id))
		f := filed[sid(id)]
		switch {
		case ok && (f == nil || f != e):
			return fmt.Sprintf("Lookup finds session %s but Snapshot does not list that entry", sid(id)), pairs
		case ok && e.IsExpired():
			return fmt.Sprintf("Lookup handed out expired session %s", sid(id)), pairs
		case !ok && f != nil && !f.IsExpired():
			return fmt.Sprintf("session %s is filed and not expired, yet Lookup does not find it", sid(id)), pairs
		}
	}
	return "", pairs
}

func TestC17CachePrograms(t *testing.T) {
	rapid.Check(t, func(t *rapid.T) {
		p := Program{Procs: rapid.SampledFrom([]int{1, 2, 4, 16}).Draw(t, "procs")}
		g := rapid.IntRange(2, 16).Draw(t, "goroutines")
		for i := 0; i < g; i++ {
			n := rapid.IntRange(20, 200).Draw(t, "len")
			var prog []POp
			for j := 0; j < n; j++ {
				prog = append(prog, POp{K: rapid.IntRange(0, len(kinds)-1).Draw(t, "k"), ID: rapid.IntRange(0, 5).Draw(t, "id"),
					Cmd: rapid.IntRange(0, 7).Draw(t, "cmd"), Y: rapid.IntRange(0, 3).Draw(t, "y") == 0})
			}
			p.Progs = append(p.Progs, prog)
		}
		v, pairs := runProgram(p)
		ev.Case(fmt.Sprintf("cache/procs=%d", p.Procs), "")
		for k := range pairs {
			ev.Nontrivial("overlap:" + k)
				ev.Class("overlap:" + k)
		}
		ev.Count("cache_operations", int64(totalOps(p)))
		if len(p.Progs) <= 3 {
			ev.Sample("cache-program", map[string]any{"procs": p.Procs, "goroutines": len(p.Progs), "first_ops": p.Progs[0][:5]})
		}
		if v != "" {
			kit.Violation("C17", v, p)
			t.Fatalf("C17 violated: %s", v)
		}
	})
}

// Every unordered pair of operation kinds, two goroutines hammering the same id:
// makes each pair overlap for certain, whatever the random programs happened to draw.
func TestC17DirectedPairs(t *testing.T) {
	reps := 60 * kit.Scale(1, 5)
	for a := 0; a < len(kinds); a++ {
		for b := a; b < len(kinds); b++ {
			mk := func(k int) []POp {
				var prog []POp
				for i := 0; i < reps; i++ {
					prog = append(prog, POp{K: k, ID: 0, Cmd: 0, Y: i%7 == 0})
					if i%10 == 0 { // keep the entry present so the operations have something to act on
						prog = append(prog, POp{K: 0, ID: 0}, POp{K: 4, ID: 0, Cmd: 0})
					}
				}
				return prog
			}
			p := Program{Procs: []int{2, 4, 16}[(a+b)%3], Progs: [][]POp{mk(a), mk(b), mk(a), mk(b)}}
			v, pairs := runProgram(p)
			ev.Case("directed/"+kinds[a]+"||"+kinds[b], "")
			for k := range pairs {
				ev.Nontrivial("overlap:" + k)
				ev.Class("overlap:" + k)
			}
			ev.Count("cache_operations", int64(totalOps(p)))
			if v != "" {
				kit.Violation("C17", v, p)
				t.Errorf("C17 violated: %s", v)
			}
		}
	}
}

// TestC17SessionIDs: many fresh server handshakes at once in one process. Every connection must get its
// own session id, and the server's cache must hold, under that id, the key of THAT connection (a shared
// id means one client's later resumption meets another connection's key).
func TestC17SessionIDs(t *testing.T) {
	// (1) the id source itself, hammered from 8 goroutines
	const per = 150000
	draws := make([][]int, 8)
	var wg sync.WaitGroup
	for g := range draws {
		wg.Add(1)
		go func(g int) {
			defer wg.Done()
			out := make([]int, 0, per)
			for i := 0; i < per; i++ {
				out = append(out, security.GetNextSessionCounter())
			}
			draws[g] = out
		}(g)
	}
	wg.Wait()
	seen := make(map[int]bool, 8*per)
	for _, d := range draws {
		for _, v := range d {
			if seen[v] {
				w := fmt.Sprintf("two concurrent callers were handed the same session counter value %d: concurrent fresh handshakes can be issued one session id", v)
				kit.Violation("C17", w, map[string]any{"session_counter": v})
				t.Fatalf("C17 violated: %s", w)
			}
			seen[v] = true
		}
	}
	ev.Case("session-counter", "session-counter")
	ev.Count("session_counter_draws", int64(8*per))
	// (2) whole handshakes
	rounds := 25 * kit.Scale(1, 6)
	type got struct {
		sid string
		key []byte
	}
	res := make([][]got, 16)
	errs := make([]string, 16)
	for g := range res {
		wg.Add(1)
		go func(g int) {
			defer wg.Done()
			for i := 0; i < rounds; i++ {
				cc := kit.BaseConfig(security.SecurityRequired, security.SecurityRequired, security.AuthClaimToBe)
				sc := kit.BaseConfig(security.SecurityOptional, security.SecurityOptional, security.AuthClaimToBe)
				sc.SessionCache = nil
				r := kit.Handshake(cc, sc, 8*time.Second)
				if r.CErr != nil || r.SErr != nil {
					errs[g] = fmt.Sprintf("fresh handshake %d/%d failed while others were running: client %v / server %v", g, i, r.CErr, r.SErr)
					return
				}
				var key []byte
				if e, ok := cc.SessionCache.Lookup(r.CNeg.SessionId); ok && e.KeyInfo() != nil {
					key = append([]byte(nil), e.KeyInfo().Data...)
				}
				res[g] = append(res[g], got{r.SNeg.SessionId, key})
				_ = r.CConn.Close()
				_ = r.SConn.Close()
			}
		}(g)
	}
	wg.Wait()
	for _, e := range errs {
		if e != "" {
			kit.Violation("C17", e, map[string]any{"session_ids": true})
			t.Fatalf("C17 violated: %s", e)
		}
	}
	ids := map[string]bool{}
	n := 0
	for _, rs := range res {
		for _, x := range rs {
			n++
			if ids[x.sid] {
				w := fmt.Sprintf("two of %d concurrent fresh handshakes were issued the same session id %q", 16*rounds, x.sid)
				kit.Violation("C17", w, map[string]any{"session_ids": true})
				t.Fatalf("C17 violated: %s", w)
			}
			ids[x.sid] = true
			e, ok := security.GetSessionCache().Lookup(x.sid)
			if !ok || e.KeyInfo() == nil || x.key == nil || string(e.KeyInfo().Data) != string(x.key) {
				w := fmt.Sprintf("after %d concurrent fresh handshakes the server's cache entry for session %q does not hold that connection's key (found=%v)", 16*rounds, x.sid, ok)
				kit.Violation("C17", w, map[string]any{"session_ids": true})
				t.Fatalf("C17 violated: %s", w)
			}
		}
	}
	ev.Case("fresh-handshake-storm", fmt.Sprintf("fresh-storm:%d", n))
	ev.Count("concurrent_handshakes", int64(n))
}

// TestC17DumpIsOneView: no torn reads. Writers keep an invariant that holds in every real state of the cache
// (a command route is only ever filed after its session and removed together with it); a dump taken at any
// moment must show a state in which it holds: every route listed leads to a session listed in the SAME dump.
func TestC17DumpIsOneView(t *testing.T) {
	dumps := 4000 * kit.Scale(1, 6)
	for _, procs := range []int{2, 4, 16} {
		old := runtime.GOMAXPROCS(procs)
		cache := security.NewSessionCache()
		stop := make(chan struct{})
		var wg sync.WaitGroup
		for wri := 0; wri < 4; wri++ {
			wg.Add(1)
			go func(wri int) {
				defer wg.Done()
				for i := 0; ; i++ {
					select {
					case <-stop:
						return
					default:
					}
					id := fmt.Sprintf("view-%d-%d", wri, i%5)
					pol := classad.New()
					cache.Store(security.NewSessionEntry(id, "<addr>", &security.KeyInfo{Data: kit.Pattern(32, 1), Protocol: "AES"}, pol, time.Now().Add(time.Hour), time.Minute, ""))
					cache.MapCommand("", fmt.Sprintf("<10.0.0.%d:1>", wri), fmt.Sprint(60000+i%5), id)
					if i%3 == 0 {
						runtime.Gosched()
					}
					cache.Invalidate(id)
				}
			}(wri)
		}
		torn := ""
		kit.Current(map[string]any{"dump_view": procs})
		for d := 0; d < dumps && torn == ""; d++ {
			if d%64 == 0 {
				kit.Beat()
			}
			dump := cache.DebugDump()
			listed := map[string]bool{}
			inMap := false
			for _, ln := range strings.Split(dump, "\n") {
				switch {
				case strings.HasPrefix(ln, "command_map:"):
					inMap = true
				case !inMap && strings.HasPrefix(ln, "- id="):
					f := strings.Fields(strings.TrimPrefix(ln, "- id="))
					if len(f) > 0 {
						listed[f[0]] = true
					}
				case inMap && strings.Contains(ln, " -> "):
					sid := strings.TrimSpace(ln[strings.LastIndex(ln, " -> ")+4:])
					if !listed[sid] {
						torn = fmt.Sprintf("dump #%d (GOMAXPROCS %d) lists the route %q but not the session it leads to: the two halves of one dump come from different moments", d, procs, strings.TrimSpace(ln))
					}
				}
			}
			// Snapshot is one view too: no id twice
			seen := map[string]bool{}
			for _, e := range cache.Snapshot() {
				if seen[e.ID()] {
					torn = "Snapshot lists session " + e.ID() + " twice"
				}
				seen[e.ID()] = true
			}
		}
		close(stop)
		wg.Wait()
		runtime.GOMAXPROCS(old)
		ev.Case(fmt.Sprintf("dump-one-view/procs=%d", procs), fmt.Sprintf("dump-view:%d", procs))
		ev.Count("dumps_inspected", int64(dumps))
		if torn != "" {
			kit.Violation("C17", torn, map[string]any{"dump_view": procs})
			t.Fatalf("C17 violated: %s", torn)
		}
	}
}

// TestC17LostStore: the narrow window directly. An expired entry sits under id X; four resumption-style
// lookups of X run against one Store of a fresh entry for X. When all have returned the fresh entry must
// be there: a lookup that judged the OLD entry expired may not remove the NEW one.
func TestC17LostStore(t *testing.T) {
	rounds := 12000 * kit.Scale(1, 8)
	for _, procs := range []int{2, 4, 16} {
		old := runtime.GOMAXPROCS(procs)
		cache := security.NewSessionCache()
		lost := 0
		kit.Current(map[string]any{"lost_store": procs})
		for r := 0; r < rounds && lost == 0; r++ {
			if r%64 == 0 {
				kit.Beat()
			}
			stale := newEntry(0, time.Minute)
			stale.VerifSetExpiration(time.Now().Add(-time.Second))
			cache.Store(stale)
			fresh := newEntry(0, time.Minute)
			var wg sync.WaitGroup
			start := make(chan struct{})
			for g := 0; g < 4; g++ {
				wg.Add(1)
				go func(g int) {
					defer wg.Done()
					<-start
					if g%2 == 0 {
						_, _ = cache.LookupNonExpired(sid(0))
					} else {
						cache.InvalidateExpired()
					}
					_, _ = cache.LookupNonExpired(sid(0))
				}(g)
			}
			wg.Add(1)
			go func() { defer wg.Done(); <-start; runtime.Gosched(); cache.Store(fresh) }()
			close(start)
			wg.Wait()
			if e, ok := cache.Lookup(sid(0)); !ok || e != fresh {
				lost++
				v := fmt.Sprintf("round %d (GOMAXPROCS %d): a fresh session stored while lookups/sweeps of the same id (holding an EXPIRED entry) were running is gone after all of them returned (found=%v)", r, procs, ok)
				kit.Violation("C17", v, map[string]any{"lost_store_round": r, "procs": procs})
				t.Errorf("C17 violated: %s", v)
			}
		}
		ev.Case(fmt.Sprintf("lost-store/procs=%d", procs), fmt.Sprintf("lost-store:%d", procs))
		ev.Count("lost_store_rounds", int64(rounds))
		runtime.GOMAXPROCS(old)
	}
}

func TestC17Replay(t *testing.T) {
	type rcase struct {
		Program
		Storm
		Directed []string        `json:"directed"`
		Wedged   bool            `json:"wedged"`
		Running  json.RawMessage `json:"running"`
		DumpView int             `json:"dump_view"`
		Lost     int             `json:"lost_store"`
		Burst    int             `json:"listener_burst"`
	}
	var c rcase
	ok, err := kit.ReplayCase(&c)
	if !ok {
		t.Skip("no VERIF_REPLAY")
	}
	if err != nil {
		t.Fatal(err)
	}
	if c.Wedged {
		// the case that was running when the process wedged: run it again (the wedge watch is active here too)
		var r rcase
		if err := json.Unmarshal(c.Running, &r); err != nil {
			t.Fatal(err)
		}
		c = r
		switch {
		case c.DumpView > 0:
			TestC17DumpIsOneView(t)
		case c.Lost > 0:
			TestC17LostStore(t)
		case c.Burst > 0:
			TestC17ListenerBurst(t)
		}
	}
	if len(c.Progs) > 0 {
		for i := 0; i < 20; i++ {
			if v, _ := runProgram(c.Program); v != "" {
				t.Fatalf("C17 violated: %s", v)
			}
		}
	}
	if c.N > 0 {
		for i := 0; i < 5; i++ {
			if v := runStorm(c.Storm); v != "" {
				t.Fatalf("C17 violated: %s", v)
			}
		}
	}
}

func totalOps(p Program) int {
	n := 0
	for _, x := range p.Progs {
		n += len(x)
	}
	return n
}

// ---------------------------------------------------------------------------
// (b) handshake storms
// ---------------------------------------------------------------------------

func startServer(t interface{ Fatalf(string, ...any) }, perCmd bool) (string, func()) {
	cfg := kit.BaseConfig(security.SecurityOptional, security.SecurityOptional, security.AuthClaimToBe)
	cfg.SessionCache = nil
	srv := server.New(cfg)
	if perCmd {
		// the application keeps ONE policy object per command and hands it out for every connection
		shared := kit.BaseConfig(security.SecurityOptional, security.SecurityRequired, security.AuthClaimToBe)
		shared.SessionCache = nil
		shared.PostAuthPolicy = cfg.PostAuthPolicy
		srv.SecurityConfigForCommand = func(cmd int) *security.SecurityConfig {
			if cmd == 60011 {
				return shared
			}
			return nil
		}
	}
	srv.Handle(60011, func(ctx context.Context, c *server.Conn) error {
		m, err := c.Stream.ReceiveCompleteMessage(ctx)
		if err != nil {
			return err
		}
		return c.Stream.SendMessage(ctx, append([]byte("echo:"), m...))
	})
	ln, err := net.Listen("tcp", "127.0.0.1:0")
	if err != nil {
		t.Fatalf("listen: %v", err)
	}
	ctx, cancel := context.WithCancel(context.Background())
	go func() { _ = srv.Serve(ctx, ln) }()
	return ln.Addr().String(), func() { cancel(); _ = ln.Close() }
}

type Storm struct {
	N      int  `json:"n"`
	API    int  `json:"api"` // 0 ConnectAndAuthenticateWithConfig, 1 bare Authenticator, 2 mixed
	Warm   bool `json:"warm"` // establish the shared session first so most clients resume
	Procs  int  `json:"procs"`
	PerCmd bool `json:"per_cmd"` // the server hands out one shared per-command policy object
}

func runStorm(s Storm) string {
	kit.Current(s)
	old := runtime.GOMAXPROCS(s.Procs)
	defer runtime.GOMAXPROCS(old)
	addr, stop := startServer(panicT{}, s.PerCmd)
	defer stop()
	shared := kit.BaseConfig(security.SecurityRequired, security.SecurityRequired, security.AuthClaimToBe) // ONE config object for all clients
	one := func(i int) string {
		ctx, cancel := context.WithTimeout(context.Background(), 8*time.Second)
		defer cancel()
		var st *stream.Stream
		api := s.API
		if api == 2 {
			api = i % 2
		}
		if api == 0 {
			cl, err := client.ConnectAndAuthenticateWithConfig(ctx, &client.ClientConfig{Address: addr, Security: shared, Timeout: 5 * time.Second})
			if err != nil {
				return fmt.Sprintf("client %d: handshake failed: %v", i, err)
			}
			st = cl.GetStream()
		} else {
			conn, err := net.Dial("tcp", addr)
			if err != nil {
				return fmt.Sprintf("client %d: dial: %v", i, err)
			}
			st = stream.NewStream(conn)
			// the bare Authenticator API documents (server.ServeConn) that it writes
			// this handshake's ECDH key into the config it is given: callers hand it
			// a shallow copy. Cache and credentials stay shared.
			own := *shared
			if _, err := security.NewAuthenticator(&own, st).ClientHandshake(ctx); err != nil {
				_ = conn.Close()
				if security.IsSessionResumptionError(err) {
					return "" // a resumption that lost a race with an invalidation is a legitimate retry case for this API
				}
				return fmt.Sprintf("client %d: handshake failed: %v", i, err)
			}
		}
		defer st.Close()
		probe := []byte(fmt.Sprintf("probe-from-client-%d", i))
		if err := st.SendMessage(ctx, probe); err != nil {
			return fmt.Sprintf("client %d: probe send: %v", i, err)
		}
		got, err := st.ReceiveCompleteMessage(ctx)
		if err != nil || string(got) != "echo:"+string(probe) {
			return fmt.Sprintf("client %d: the probe on its own connection did not come back intact (%q, %v): handshakes disturbed one another", i, got, err)
		}
		return ""
	}
	if s.Warm {
		if v := one(-1); v != "" {
			return "warm-up: " + v
		}
	}
	stopMaint := make(chan struct{})
	var mw sync.WaitGroup
	mw.Add(1)
	go func() {
		defer mw.Done()
		for {
			select {
			case <-stopMaint:
				return
			default:
			}
			_ = security.GetSessionCache().DebugDump()
			security.InvalidateExpiredSessions()
			_ = shared.SessionCache.DebugDump()
			shared.SessionCache.InvalidateExpired()
			for _, e := range shared.SessionCache.Snapshot() {
				_ = e.IsExpired()
			}
			runtime.Gosched()
		}
	}()
	errs := make([]string, s.N)
	var wg sync.WaitGroup
	for i := 0; i < s.N; i++ {
		wg.Add(1)
		go func(i int) { defer wg.Done(); errs[i] = one(i) }(i)
	}
	wg.Wait()
	close(stopMaint)
	mw.Wait()
	for _, e := range errs {
		if e != "" {
			return e
		}
	}
	return ""
}

type panicT struct{}

func (panicT) Fatalf(f string, a ...any) { panic(fmt.Sprintf(f, a...)) }

func TestC17HandshakeStorms(t *testing.T) {
	rapid.Check(t, func(t *rapid.T) {
		s := Storm{N: rapid.IntRange(4, 32).Draw(t, "n"), API: rapid.IntRange(0, 2).Draw(t, "api"), Warm: rapid.Bool().Draw(t, "warm"),
			Procs: rapid.SampledFrom([]int{2, 4, 16}).Draw(t, "procs"), PerCmd: rapid.Bool().Draw(t, "percmd")}
		v := runStorm(s)
		ev.Case(fmt.Sprintf("storm/api=%d/warm=%v/percmd=%v", s.API, s.Warm, s.PerCmd), fmt.Sprintf("storm:%+v", s))
		ev.Count("concurrent_handshakes", int64(s.N))
		ev.Sample("storm", s)
		if v != "" {
			kit.Violation("C17", v, s)
			t.Fatalf("C17 violated: %s", v)
		}
	})
}

// One SecurityManager (one configuration inside it) serving many handshakes at once.
func TestC17ManagerStorms(t *testing.T) {
	rapid.Check(t, func(t *rapid.T) {
		n := rapid.IntRange(2, 24).Draw(t, "n")
		procs := rapid.SampledFrom([]int{2, 4, 16}).Draw(t, "procs")
		old := runtime.GOMAXPROCS(procs)
		defer runtime.GOMAXPROCS(old)
		cm, sm := security.NewSecurityManager(), security.NewSecurityManager()
		errs := make([]string, n)
		var wg sync.WaitGroup
		for i := 0; i < n; i++ {
			wg.Add(1)
			go func(i int) {
				defer wg.Done()
				pa, pb := kit.NextPorts()
				ca, cb := kit.NewBufPipe(pa, pb)
				defer ca.Close()
				defer cb.Close()
				cs, ss := stream.NewStream(ca), stream.NewStream(cb)
				ctx, cancel := context.WithTimeout(context.Background(), 8*time.Second)
				defer cancel()
				done := make(chan error, 1)
				go func() { done <- sm.ServerHandshake(ctx, ss) }()
				cerr := cm.ClientHandshake(ctx, cs)
				serr := <-done
				if cerr != nil || serr != nil {
					errs[i] = fmt.Sprintf("pair %d: manager handshake failed: client %v / server %v", i, cerr, serr)
					return
				}
				msg := []byte(fmt.Sprintf("manager-probe-%d", i))
				go func() { _ = cs.SendMessage(ctx, msg) }()
				got, err := ss.ReceiveCompleteMessage(ctx)
				if err != nil || string(got) != string(msg) {
					errs[i] = fmt.Sprintf("pair %d: probe did not arrive intact after the manager handshake (%q, %v)", i, got, err)
				}
			}(i)
		}
		wg.Wait()
		ev.Case("manager-storm", fmt.Sprintf("manager:%d/%d", n, procs))
		ev.Count("concurrent_handshakes", int64(n))
		for _, e := range errs {
			if e != "" {
				t.Fatalf("C17 violated: %s (n=%d procs=%d)", e, n, procs)
			}
		}
	})
}

// A CCB listener's broker stream: the broker sends a burst of reverse-connect requests, every one
// is handled in its own goroutine and reports its result on the ONE broker stream while the
// reader keeps reading. Every result must arrive as a well-formed control ad, exactly once.
func runListenerBurst(n, deadEvery, procs int) string {
	kit.Current(map[string]any{"listener_burst": n, "dead_every": deadEvery, "procs": procs})
	old := runtime.GOMAXPROCS(procs)
	defer runtime.GOMAXPROCS(old)
	bl, err := net.Listen("tcp", "127.0.0.1:0")
	if err != nil {
		return ""
	}
	defer bl.Close()
	rl, err := net.Listen("tcp", "127.0.0.1:0") // the requester the listener is told to connect back to
	if err != nil {
		return ""
	}
	defer rl.Close()
	// an address nobody listens on (a just-closed ephemeral port could be re-bound by a check running
	// beside this one; port 1 is never bound here)
	dead := "127.0.0.1:1"
	var hellos int64
	go func() {
		for {
			c, err := rl.Accept()
			if err != nil {
				return
			}
			go func(c net.Conn) {
				defer c.Close()
				_ = c.SetDeadline(time.Now().Add(3 * time.Second))
				st := stream.NewStream(c)
				if _, err := st.ReceiveCompleteMessage(context.Background()); err == nil {
					atomic.AddInt64(&hellos, 1)
				}
			}(c)
		}
	}()
	ctx, cancel := context.WithTimeout(context.Background(), 10*time.Second)
	defer cancel()
	lcfg := kit.BaseConfig(security.SecurityRequired, security.SecurityRequired, security.AuthClaimToBe)
	l := ccb.NewListener(ccb.ListenerConfig{BrokerAddr: bl.Addr().String(), Security: lcfg, Name: "verif",
		Handler: func(c net.Conn, _ ccb.InboundMeta) { _ = c.Close() }, DialTimeout: 3 * time.Second})
	lctx, lcancel := context.WithCancel(ctx)
	ldone := make(chan struct{})
	go func() { _ = l.Run(lctx); close(ldone) }()
	defer func() { lcancel(); <-ldone }()

	conn, err := bl.Accept()
	if err != nil {
		return "C17 harness: broker accept: " + err.Error()
	}
	defer conn.Close()
	_ = conn.SetDeadline(time.Now().Add(10 * time.Second))
	st := stream.NewStream(conn)
	bcfg := kit.BaseConfig(security.SecurityOptional, security.SecurityOptional, security.AuthClaimToBe)
	bcfg.SessionCache = nil
	if _, err := security.NewAuthenticator(bcfg, st).ServerHandshake(ctx); err != nil {
		return "C17 harness: broker handshake: " + err.Error()
	}
	if _, err := ccb.ReadControlAd(ctx, st); err != nil {
		return "C17 harness: registration ad: " + err.Error()
	}
	if err := ccb.WriteControlAd(ctx, st, ccb.NewAd(map[string]any{ccb.AttrCCBID: bl.Addr().String() + "#7", ccb.AttrClaimID: "cookie"})); err != nil {
		return "C17 harness: registration reply: " + err.Error()
	}
	if !st.IsEncrypted() {
		return "C17 harness: broker stream not encrypted"
	}
	go func() { // writer half of the broker: the burst
		for i := 0; i < n; i++ {
			target := rl.Addr().String()
			if deadEvery > 0 && i%deadEvery == deadEvery-1 {
				target = dead
			}
			_ = ccb.WriteControlAd(ctx, st, ccb.NewAd(map[string]any{ccb.AttrCommand: ccb.CommandRequest, ccb.AttrMyAddress: target,
				ccb.AttrClaimID: fmt.Sprintf("connect-%d", i), ccb.AttrRequestID: fmt.Sprint(i)}))
		}
	}()
	seen := map[string]bool{}
	for len(seen) < n {
		ad, err := ccb.ReadControlAd(ctx, st)
		if err != nil {
			return fmt.Sprintf("after %d of %d results the broker could not read the next result ad from the listener's stream: %v (concurrent result writers disturbed one another)", len(seen), n, err)
		}
		id := ccb.AdString(ad, ccb.AttrRequestID)
		if id == "" {
			continue // a heartbeat
		}
		if seen[id] {
			return fmt.Sprintf("result for request %s reported twice", id)
		}
		seen[id] = true
		want := fmt.Sprintf("connect-%s", id)
		if got := ccb.AdString(ad, ccb.AttrClaimID); got != want {
			return fmt.Sprintf("result for request %s carries connect id %q, want %q (ads mixed up)", id, got, want)
		}
	}
	return ""
}

func TestC17ListenerBurst(t *testing.T) {
	rapid.Check(t, func(t *rapid.T) {
		n := rapid.IntRange(2, 60).Draw(t, "requests")
		deadEvery := rapid.SampledFrom([]int{0, 2, 5}).Draw(t, "deadEvery")
		procs := rapid.SampledFrom([]int{2, 4, 16}).Draw(t, "procs")
		v := runListenerBurst(n, deadEvery, procs)
		if strings.HasPrefix(v, "C17 harness:") { // the scenario could not be set up: says nothing about the property
			ev.Class("listener-burst-not-set-up(inconclusive)")
			t.Logf("inconclusive: %s", v)
			return
		}
		ev.Case("listener-burst", fmt.Sprintf("burst:%d/%d/%d", n, deadEvery, procs))
		ev.Count("concurrent_result_writers", int64(n))
		if v != "" {
			t.Fatalf("C17 violated: %s (requests=%d deadEvery=%d procs=%d)", v, n, deadEvery, procs)
		}
	})
}

// ---------------------------------------------------------------------------
// (c) simultaneous send and receive on one established stream
// ---------------------------------------------------------------------------

func TestC17StreamDuplex(t *testing.T) {
	rapid.Check(t, func(t *rapid.T) {
		m := rapid.IntRange(10, 200).Draw(t, "messages")
		size := rapid.SampledFrom([]int{0, 1, 100, 5000, 30000}).Draw(t, "size")
		procs := rapid.SampledFrom([]int{2, 4, 16}).Draw(t, "procs")
		old := runtime.GOMAXPROCS(procs)
		defer runtime.GOMAXPROCS(old)
		cc := kit.BaseConfig(security.SecurityRequired, security.SecurityRequired, security.AuthClaimToBe)
		sc := kit.BaseConfig(security.SecurityRequired, security.SecurityRequired, security.AuthClaimToBe)
		// real loopback TCP: writers block when the peer is slow, as in production
		ln, err := net.Listen("tcp", "127.0.0.1:0")
		if err != nil {
			t.Fatalf("C17 harness: listen: %v", err)
		}
		defer ln.Close()
		acc := make(chan net.Conn, 1)
		go func() { c, _ := ln.Accept(); acc <- c }()
		cconn, err := net.Dial("tcp", ln.Addr().String())
		if err != nil {
			t.Fatalf("C17 harness: dial: %v", err)
		}
		sconn := <-acc
		defer cconn.Close()
		defer sconn.Close()
		cst, sst := stream.NewStream(cconn), stream.NewStream(sconn)
		hctx, hcancel := context.WithTimeout(context.Background(), 8*time.Second)
		hdone := make(chan error, 1)
		go func() { _, e := security.NewAuthenticator(sc, sst).ServerHandshake(hctx); hdone <- e }()
		_, cerr := security.NewAuthenticator(cc, cst).ClientHandshake(hctx)
		serr := <-hdone
		hcancel()
		if cerr != nil || serr != nil {
			t.Fatalf("C17 harness: handshake failed: %v / %v", cerr, serr)
		}
		if !cst.IsEncrypted() || !sst.IsEncrypted() {
			t.Fatalf("C17 harness: stream not encrypted")
		}
		var wg sync.WaitGroup
		errs := make(chan string, 8)
		send := func(st *stream.Stream, tag uint32) {
			defer wg.Done()
			for i := 0; i < m; i++ {
				if err := st.SendMessage(kit.Bg, kit.Pattern(size+i%3, tag+uint32(i))); err != nil {
					errs <- fmt.Sprintf("send %d: %v", i, err)
					return
				}
			}
		}
		recv := func(st *stream.Stream, tag uint32) {
			defer wg.Done()
			for i := 0; i < m; i++ {
				got, err := st.ReceiveCompleteMessage(kit.Bg)
				want := kit.Pattern(size+i%3, tag+uint32(i))
				if err != nil || string(got) != string(want) {
					errs <- fmt.Sprintf("message %d did not arrive intact and in order while the same stream was sending (err %v)", i, err)
					return
				}
			}
		}
		wg.Add(4)
		go send(cst, 1000)
		go recv(sst, 1000)
		go send(sst, 5000)
		go recv(cst, 5000)
		wg.Wait()
		ev.Case("duplex", fmt.Sprintf("duplex:%d/%d/%d", m, size, procs))
		ev.Count("duplex_messages", int64(2*m))
		select {
		case e := <-errs:
			t.Fatalf("C17 violated: %s (messages=%d size=%d procs=%d)", e, m, size, procs)
		default:
		}
	})
}
