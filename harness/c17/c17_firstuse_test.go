package c17

import (
	"fmt"
	"os"
	"runtime"
	"sync"
	"testing"

	"github.com/bbockelm/cedar/security"

	"verifharness/kit"
)

// TestC17FirstUse: the very first use of the process-wide session cache coming from several goroutines at once, in
// a process that inherited sessions from its parent (CONDOR_PRIVATE_INHERIT). Whoever gets the cache gets it
// complete: both inherited sessions are in it and the parent address's keep-alive command leads to the family
// session. (The verif hook VerifResetProcessState puts the package back into its "never used" state between
// rounds; nothing else runs then.)
func TestC17FirstUse(t *testing.T) {
	rounds := kit.Scale(300, 3000)
	const parentAddr = "<127.0.0.1:9618>"
	bad := 0
	for r := 0; r < rounds && bad == 0; r++ {
		procs := []int{2, 4, 16}[r%3]
		old := runtime.GOMAXPROCS(procs)
		parentSID, familySID := fmt.Sprintf("fu-parent-%d", r), fmt.Sprintf("fu-family-%d", r)
		_ = os.Setenv("CONDOR_INHERIT", "4242 "+parentAddr)
		_ = os.Setenv("CONDOR_PRIVATE_INHERIT", "SessionKey:"+parentSID+`#[Encryption="YES";Integrity="YES";CryptoMethodsList="AES";ValidCommands="60008,60011"]#`+
			"0123456789abcdef0123456789abcdef0123456789abcdef"+" FamilySessionKey:"+familySID+`#[Encryption="YES";Integrity="YES";CryptoMethodsList="AES"]#`+
			"fedcba9876543210fedcba9876543210fedcba9876543210")
		security.VerifResetProcessState()
		kit.Current(map[string]any{"first_use": r, "procs": procs})
		const n = 8
		var wg sync.WaitGroup
		start := make(chan struct{})
		viol := make([]string, n)
		for g := 0; g < n; g++ {
			wg.Add(1)
			go func(g int) {
				defer wg.Done()
				<-start
				for i := 0; i < g%3; i++ {
					runtime.Gosched()
				}
				c := security.GetSessionCache()
				if c == nil {
					viol[g] = "GetSessionCache returned nil"
					return
				}
				_, okP := c.Lookup(parentSID)
				_, okF := c.Lookup(familySID)
				if !okP || !okF {
					viol[g] = fmt.Sprintf("a goroutine was handed the process-wide cache before it was complete: inherited parent session present=%v, family session present=%v", okP, okF)
					return
				}
				if e, ok := c.LookupByCommand("", parentAddr, "60011"); !ok || e.ID() != parentSID {
					viol[g] = "a goroutine was handed the process-wide cache before the inherited parent session's command routes were filed"
				}
			}(g)
		}
		close(start)
		wg.Wait()
		runtime.GOMAXPROCS(old)
		ev.Case("first-use", fmt.Sprintf("first-use:%d", r%64))
		for _, v := range viol {
			if v != "" {
				bad++
				v = fmt.Sprintf("round %d (GOMAXPROCS %d): %s", r, procs, v)
				kit.Violation("C17", v, map[string]any{"first_use": r})
				t.Errorf("C17 violated: %s", v)
				break
			}
		}
	}
	security.VerifResetProcessState()
	_ = os.Unsetenv("CONDOR_INHERIT")
	_ = os.Unsetenv("CONDOR_PRIVATE_INHERIT")
	ev.Count("first_use_rounds", int64(rounds))
}
