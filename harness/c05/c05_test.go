// Package c05 decides property C05: the server runs a command handler only on
// a session that meets that command's policy and authorization at that moment.
package c05

import (
	"strings"
	"os"
	"bytes"
	"context"
	"encoding/json"
	"fmt"
	"os/user"
	"sync"
	"testing"
	"time"

	"github.com/bbockelm/cedar/message"
	"github.com/bbockelm/cedar/security"
	"github.com/bbockelm/cedar/server"
	"github.com/bbockelm/cedar/stream"
	"pgregory.net/rapid"

	"verifharness/kit"
)

func TestMain(m *testing.M) { kit.Main(m) }

var ev = kit.Ev("C05")

func init() {
	ev.Rule("a history on one real server.Server (ServeConn over in-memory connections) with 4 authenticated commands carrying per-command security policies and 0-2 permission levels, 2 raw commands and unknown ones: " +
		"run(first command, client kind: CLAIMTOBE / TOKEN / unauthenticated / scripted client omitting its key / requester that only knows a session id), follow-on commands on a kept-alive connection, " +
		"reconnect-and-resume with a different command, bare raw commands, authenticated requests for raw commands, re-registration of a command (raw <-> authenticated, other levels), policy changes, authorizer table changes, authorizer on/off, server restart; " +
		"oracle: reference admission model evaluated on ground truth (authentication observed on the wire, encryption read off the handler's reply frame): every handler invocation must be one the model allows; " +
		"a refused or unknown command closes the connection without running a handler; an honest client with a satisfied policy and an authorized identity does get its handler (non-vacuity); " +
		"non-trivial = a follow-on or resumed command whose policy differs from the first command's, or a policy/authorizer change between connections; distinct by history")
}

const (
	cmdRead   = 60011 // perms READ
	cmdWrite  = 60007 // perms WRITE
	cmdAdmin  = 421   // perms READ, DAEMON
	cmdNoPerm = 443   // no perms
	cmdRaw1   = 68
	cmdRaw2   = 70
	cmdUnk    = 4242
)

var authCmds = []int{cmdRead, cmdWrite, cmdAdmin, cmdNoPerm}
var allCmds = []int{cmdRead, cmdWrite, cmdAdmin, cmdNoPerm, cmdRaw1, cmdRaw2, cmdUnk}
var perms = map[int][]string{cmdRead: {"READ"}, cmdWrite: {"WRITE"}, cmdAdmin: {"READ", "DAEMON"}, cmdNoPerm: nil}
var lvl = []security.SecurityLevel{security.SecurityRequired, security.SecurityPreferred, security.SecurityOptional, security.SecurityNever}

type pol struct{ Auth, Enc int; Integ bool }

type invocation struct {
	cmd      int
	viaRaw   bool
	negAuth  bool
	user     string
	encState bool
	connID   int
}

type world struct {
	mu         sync.Mutex
	srv        *server.Server
	policy     map[int]pol
	inherit    map[int]bool // commands for which the per-command selector returns nil: the server's default policy applies
	defPol     pol
	authzOn    bool
	authz      map[string]bool // perm|user
	keepNext   bool
	invs       []invocation
	connSeq    int
	curConn    int
	// registration table as the last Handle/HandleRaw call per command left it
	mapOn bool
	raw   map[int]bool
	perms map[int][]string
	h     server.HandlerFunc
}

var tokenEnv = kit.NewTokenEnv()
var osUser = func() string {
	u, err := user.Current()
	if err != nil {
		return "root"
	}
	return u.Username
}()

// mapped is the identity the server's FQUMapper turns u into when the case maps identities
func mapped(u string) string { return "mapped-" + u }

func newWorld(own, mapOn bool) *world {
	w := &world{policy: map[int]pol{}, authz: map[string]bool{}, inherit: map[int]bool{}, defPol: pol{Auth: 2, Enc: 2}}
	for _, c := range authCmds {
		w.policy[c] = pol{Auth: 2, Enc: 2}
	}
	base := kit.BaseConfig(security.SecurityOptional, security.SecurityOptional, security.AuthClaimToBe, security.AuthToken)
	base.SessionCache = nil
	var ownCache *security.SessionCache
	if own {
		// the server keeps a session cache of its own (handshake-negotiated sessions are still filed in the
		// process-wide one, which the server falls back to)
		ownCache = security.NewSessionCache()
		base.SessionCache = ownCache
	}
	tokenEnv.Apply(nil, base)
	w.srv = server.New(base)
	w.mapOn = mapOn
	if mapOn {
		// every authenticated identity is mapped (as a map file would); the mapped name is the session's identity:
		// what the authorizer is asked about, on the first connection, on follow-on commands and after a resumption
		w.srv.FQUMapper = func(authUser, peerAddr string) string { return mapped(authUser) }
	}
	w.srv.SecurityConfigForCommand = func(cmd int) *security.SecurityConfig {
		w.mu.Lock()
		p, ok := w.policy[cmd]
		if w.inherit[cmd] {
			ok = false
		}
		w.mu.Unlock()
		if !ok {
			return nil
		}
		c := kit.BaseConfig(lvl[p.Auth], lvl[p.Enc], security.AuthClaimToBe, security.AuthToken)
		c.SessionCache = ownCache
		if p.Integ {
			c.Integrity = security.SecurityRequired
		}
		tokenEnv.Apply(nil, c)
		c.PostAuthPolicy = base.PostAuthPolicy
		return c
	}
	h := func(ctx context.Context, c *server.Conn) error {
		inv := invocation{cmd: c.Command, viaRaw: c.Negotiation == nil, encState: c.Stream.IsEncrypted()}
		if c.Negotiation != nil {
			inv.negAuth, inv.user = c.Negotiation.Authentication, c.Negotiation.User
		}
		w.mu.Lock()
		inv.connID = w.curConn
		w.invs = append(w.invs, inv)
		keep := w.keepNext
		w.mu.Unlock()
		m := message.NewMessageForStream(c.Stream)
		_ = m.PutString(ctx, fmt.Sprintf("HANDLER-REPLY-%d", c.Command))
		_ = m.FinishMessage(ctx)
		if keep {
			c.KeepAlive()
		}
		return nil
	}
	w.h, w.raw, w.perms = h, map[int]bool{}, map[int][]string{}
	for _, c := range authCmds {
		w.srv.Handle(c, h, perms[c]...)
		w.raw[c], w.perms[c] = false, perms[c]
	}
	w.srv.HandleRaw(cmdRaw1, h)
	w.srv.HandleRaw(cmdRaw2, h)
	w.raw[cmdRaw1], w.raw[cmdRaw2] = true, true
	return w
}

func (w *world) setAuthorizer() {
	if !w.authzOn {
		w.srv.Authorizer = nil
		return
	}
	w.srv.Authorizer = func(perm, peerAddr, user string) bool {
		w.mu.Lock()
		defer w.mu.Unlock()
		return w.authz[perm+"|"+user]
	}
}

// ground-truth description of an established client connection
type conn struct {
	id       int
	cc, sc   *kit.BufConn
	cst      *stream.Stream
	authed   bool   // authentication really ran (wire) / original session authenticated
	user     string // identity the server should hold
	encrypted bool
	sid      string
	kind     int
	done     chan struct{}
	key      []byte
	keyed    bool // the session this connection established carries a key (a session without one is never resumable)
	cache    *security.SessionCache // client cache holding this connection's session
}

type Op struct {
	K     string `json:"k"`
	Cmd   int    `json:"cmd"`
	Kind  int    `json:"kind"` // 0 CLAIMTOBE, 1 TOKEN, 2 unauthenticated, 3 scripted client omitting its ECDH key
	Keep  bool   `json:"keep"`
	Auth  int    `json:"auth"`
	Enc   int    `json:"enc"`
	Integ bool   `json:"integ"`
	Perm  int    `json:"perm"`
	User  int    `json:"user"`
	On    bool   `json:"on"`
	Say   int    `json:"say"` // scripted client (kind 3): stated levels, auth = Say%3, enc = Say/3%3 over OPTIONAL/PREFERRED/REQUIRED; key mode = Say/9%5 (4 = an honest key), Say/45%2 = gives up authentication with a zero bitmask yet carries on
}

var sayLevels = []string{"OPTIONAL", "PREFERRED", "REQUIRED"}
var badKeys = []kit.KeyMode{kit.KeyOmit, kit.KeyTruncated, kit.KeyRandom, kit.KeyGarbage}

// key modes of the scripted client (Say/9%5); Say/45%2 == 1: it also gives up authentication with a zero bitmask and carries on
var keyModes = []kit.KeyMode{kit.KeyOmit, kit.KeyTruncated, kit.KeyRandom, kit.KeyGarbage, kit.KeyHonest}

type Case struct {
	Ops []Op `json:"ops"`
	// Own: the server's configurations carry a SessionCache of their own
	Own bool `json:"own,omitempty"`
	// Map: the server maps every authenticated identity to another name (FQUMapper); the authorizer's table may
	// hold entries under mapped and under raw names
	Map bool `json:"map,omitempty"`
}

var permNames = []string{"READ", "WRITE", "DAEMON"}
var identities = []string{osUser, "alice@verif.test", "alice"}

type stats struct {
	nontrivial bool
	invoked, refused int
}

// effective returns the policy that applies to cmd (caller holds w.mu).
func (w *world) effective(cmd int) (pol, bool) {
	raw, registered := w.raw[cmd]
	if !registered || raw {
		return pol{}, false
	}
	p, ok := w.policy[cmd]
	if !ok || w.inherit[cmd] {
		return w.defPol, true // no per-command policy: the server's default applies
	}
	return p, true
}

// register re-registers cmd the way a reconfiguring daemon would: the LAST registration is what counts.
func (w *world) register(cmd int, raw bool, pm []string) {
	w.mu.Lock()
	w.raw[cmd], w.perms[cmd] = raw, pm
	w.mu.Unlock()
	if raw {
		w.srv.HandleRaw(cmd, w.h)
	} else {
		w.srv.Handle(cmd, w.h, pm...)
	}
}

func (w *world) isRaw(cmd int) bool {
	w.mu.Lock()
	defer w.mu.Unlock()
	return w.raw[cmd]
}

// setDefault installs the default policy on the server (between connections).
func (w *world) setDefault(p pol) {
	w.mu.Lock()
	w.defPol = p
	w.mu.Unlock()
	c := w.srv.SecurityConfig
	c.Authentication, c.Encryption = lvl[p.Auth], lvl[p.Enc]
	c.Integrity = security.SecurityOptional
	if p.Integ {
		c.Integrity = security.SecurityRequired
	}
}

// allowed is the reference admission model.
func (w *world) allowed(cmd int, viaHandshake bool, authed, encrypted bool, user string) bool {
	w.mu.Lock()
	defer w.mu.Unlock()
	if w.raw[cmd] {
		return !viaHandshake
	}
	p, ok := w.effective(cmd)
	if !ok || !viaHandshake {
		return false
	}
	if p.Auth == 0 && !authed {
		return false
	}
	if (p.Enc == 0 || p.Integ) && !encrypted {
		return false
	}
	if w.authzOn {
		okp := false
		if w.mapOn {
			user = mapped(user)
		}
		for _, pm := range w.perms[cmd] {
			if w.authz[pm+"|"+user] {
				okp = true
			}
		}
		if !okp {
			return false
		}
	}
	return true
}

func (w *world) takeInvs() []invocation {
	w.mu.Lock()
	defer w.mu.Unlock()
	i := w.invs
	w.invs = nil
	return i
}

// readReply reads the handler's reply (or the close) from the client side.
func readReply(c *conn, cmd int) (got bool, closed bool) {
	ctx, cancel := context.WithTimeout(context.Background(), 1500*time.Millisecond)
	defer cancel()
	m := message.NewMessageFromStream(c.cst)
	s, err := m.GetString(ctx)
	if err != nil {
		return false, true
	}
	return s == fmt.Sprintf("HANDLER-REPLY-%d", cmd), false
}

func runCase(cs Case) (string, stats) {
	var st stats
	security.ClearSessionCache()
	w := newWorld(cs.Own, cs.Map)
	var kept *conn
	var lastSess [4]*conn // last established session per client kind
	clientCaches := [4]*security.SessionCache{security.NewSessionCache(), security.NewSessionCache(), security.NewSessionCache(), security.NewSessionCache()}
	policyChanged := false
	fail := func(oi int, op Op, f string, a ...any) (string, stats) {
		return fmt.Sprintf("op %d (%s cmd=%d kind=%d): ", oi, op.K, allCmds[op.Cmd%len(allCmds)], op.Kind%4) + fmt.Sprintf(f, a...), st
	}
	// judge the invocations of one action
	judge := func(oi int, op Op, c *conn, cmd int, viaHandshake bool, replySeen, closed bool, honestFirst bool) string {
		invs := w.takeInvs()
		authed, enc, usr := false, false, ""
		if c != nil {
			authed, enc, usr = c.authed, c.encrypted, c.user
		}
		ok := w.allowed(cmd, viaHandshake, authed, enc, usr)
		for _, inv := range invs {
			if inv.cmd != cmd {
				return fmt.Sprintf("handler of command %d ran while command %d was requested", inv.cmd, cmd)
			}
			if !ok {
				return fmt.Sprintf("handler of command %d was invoked although the reference model refuses it (ground truth: via handshake=%v authenticated=%v encrypted=%v identity=%q; server believed authenticated=%v encrypted=%v user=%q; policy %+v authorizer=%v)",
					cmd, viaHandshake, authed, enc, usr, inv.negAuth, inv.encState, inv.user, w.policy[cmd], w.authzOn) + fmt.Sprintf(" inherits-default=%v default=%+v", w.inherit[cmd], w.defPol)
			}
			w.mu.Lock()
			p, _ := w.effective(cmd)
			w.mu.Unlock()
			if viaHandshake && (p.Enc == 0 || p.Integ) && !inv.encState {
				return fmt.Sprintf("Stream.IsEncrypted() was false inside the handler of command %d, which mandates encryption", cmd)
			}
			st.invoked++
		}
		if len(invs) > 1 {
			return fmt.Sprintf("handler of command %d ran %d times for one request", cmd, len(invs))
		}
		if len(invs) == 0 {
			st.refused++
			if !closed {
				return fmt.Sprintf("command %d was not run but the connection was left open (reply seen=%v)", cmd, replySeen)
			}
		}
		if ok && honestFirst && len(invs) == 0 {
			return fmt.Sprintf("non-vacuity: an honest client with a satisfied policy and an authorized identity did not get the handler of command %d", cmd)
		}
		return ""
	}
	for oi, op := range cs.Ops {
		cmd := allCmds[op.Cmd%len(allCmds)]
		kind := op.Kind % 4
		switch op.K {
		case "policy":
			c := authCmds[op.Cmd%len(authCmds)]
			w.mu.Lock()
			w.policy[c] = pol{Auth: op.Auth % 4, Enc: op.Enc % 4, Integ: op.Integ}
			w.mu.Unlock()
			policyChanged = true
		case "inherit":
			c := authCmds[op.Cmd%len(authCmds)]
			w.mu.Lock()
			w.inherit[c] = op.On
			w.mu.Unlock()
			policyChanged = true
		case "register":
			// op.Cmd picks one of the six registered commands, op.On makes it raw, op.Perm is a bit set of levels
			c := allCmds[op.Cmd%6]
			var pm []string
			for i, n := range permNames {
				if op.Perm>>uint(i)&1 != 0 {
					pm = append(pm, n)
				}
			}
			if kept != nil {
				_ = kept.cc.Close()
				<-kept.done
				kept = nil
			}
			w.register(c, op.On, pm)
			policyChanged = true
		case "defpolicy":
			w.setDefault(pol{Auth: op.Auth % 4, Enc: op.Enc % 4, Integ: op.Integ})
			policyChanged = true
		case "authz":
			w.mu.Lock()
			// (with identity mapping the entry is filed under the mapped name or - Say odd - under the RAW name, which
			// then authorises nobody: no session's identity is a raw name)
			nm := func(u string) string {
				if w.mapOn && op.Say%2 == 0 {
					return mapped(u)
				}
				return u
			}
			w.authz[permNames[op.Perm%3]+"|"+nm(identities[op.User%3])] = op.On
			if op.User%3 >= 1 { // both spellings of the token identity are one principal
				w.authz[permNames[op.Perm%3]+"|"+nm("alice@verif.test")] = op.On
				w.authz[permNames[op.Perm%3]+"|"+nm("alice")] = op.On
			}
			w.mu.Unlock()
			policyChanged = true
		case "authorizer":
			w.mu.Lock()
			w.authzOn = op.On
			w.mu.Unlock()
			w.setAuthorizer()
			policyChanged = true
		case "restart":
			security.ClearSessionCache()
		case "run", "resume":
			if kept != nil {
				_ = kept.cc.Close()
				<-kept.done
				kept = nil
			}
			if op.K == "resume" && (lastSess[kind] == nil || kind == 3) {
				continue
			}
			w.connSeq++
			c := &conn{id: w.connSeq, kind: kind, done: make(chan struct{})}
			pa, pb := kit.NextPorts()
			c.cc, c.sc = kit.NewBufPipe(pa, pb)
			w.mu.Lock()
			w.curConn, w.keepNext = c.id, op.Keep
			w.mu.Unlock()
			go func() { _ = w.srv.ServeConn(context.Background(), c.sc); close(c.done) }()
			ctx, cancel := context.WithTimeout(context.Background(), 3*time.Second)
			var herr error
			c.cst = stream.NewStream(c.cc)
			if kind == 3 {
				plog, pst := kit.ScriptedClient(c.cc, kit.PeerOpts{AuthMethods: "CLAIMTOBE", CryptoMethods: "AES", SayAuth: sayLevels[op.Say%3], SayEnc: sayLevels[op.Say/3%3],
					Key: keyModes[op.Say/9%5], GiveUp: op.Say/45%2 == 1, Command: cmd, ClaimUser: osUser + "@verif.test"}, 2*time.Second)
				herr = plog.Err
				if os.Getenv("VERIF_DEBUG") != "" {
					fmt.Printf("DEBUG scripted client: err=%v steps=%v\n", plog.Err, plog.Steps)
				}
				c.cst = pst
				if plog.PostAuthAd != nil {
					c.sid, _ = plog.PostAuthAd.EvaluateAttrString("Sid") // the session the server filed for this (possibly key-less) connection
				}
				c.authed = plog.AuthCompleted != ""
				if c.authed {
					c.user = osUser
				}
				c.encrypted = false
			} else {
				cfg := kit.BaseConfig(security.SecurityPreferred, security.SecurityPreferred, security.AuthClaimToBe)
				switch kind {
				case 1:
					cfg.AuthMethods = []security.AuthMethod{security.AuthToken}
					tokenEnv.Apply(cfg, nil)
				case 2:
					cfg.Authentication = security.SecurityNever
				}
				cfg.SessionCache, cfg.Command = clientCaches[kind], cmd
				cfg.PeerName = "<server>"
				if op.K == "resume" {
					cfg.SessionID = lastSess[kind].sid
					cfg.SessionCache = lastSess[kind].cache
					if _, ok := cfg.SessionCache.Lookup(cfg.SessionID); !ok {
						cancel()
						_ = c.cc.Close()
						<-c.done
						continue
					}
				} else {
					// force a full handshake: forget cached routes
					cfg.SessionCache = security.NewSessionCache()
					clientCaches[kind] = cfg.SessionCache
				}
				c.cache = cfg.SessionCache
				a := security.NewAuthenticator(cfg, c.cst)
				neg, err := a.ClientHandshake(ctx)
				herr = err
				if err == nil {
					c.sid = neg.SessionId
					if op.K == "resume" && a.WasSessionResumed() {
						c.authed, c.user, c.encrypted = lastSess[kind].authed, lastSess[kind].user, true
						if lastSess[kind].kind != kind {
							c.authed = false
						}
					} else {
						// ground truth from the wire: a method bitmask message was sent
						c.authed = len(c.cc.Written()) >= 2
						if c.authed {
							c.user = identities[kind]
							if kind == 1 {
								c.user = strings.TrimPrefix(neg.User, "mapped-") // resolved below against the two accepted spellings
							}
						}
					}
				}
			}
			viaHS := true
			replySeen, closed := false, true
			if herr == nil {
				replySeen, closed = readReply(c, cmd)
				if kind != 3 {
					c.encrypted = c.cst.IsEncrypted() // estimate, replaced by the wire observation below when a reply exists
				}
				if replySeen {
					// encryption ground truth: the frame carrying the handler's reply must not show its plaintext
					sw := c.sc.Written()
					c.encrypted = len(sw) > 0 && !bytes.Contains(sw[len(sw)-1], []byte("HANDLER-REPLY-"))
				}
			}
			cancel()
			if kind == 1 && c.authed && c.user != "alice@verif.test" && c.user != "alice" {
				return fail(oi, op, "TOKEN client authenticated but the identity is %q, not the token's subject", c.user)
			}
			if op.K == "resume" {
				st.nontrivial = st.nontrivial || lastSess[kind].sid != "" && true
			}
			honest := herr == nil && kind != 3 && op.K == "run"
			if v := judge(oi, op, c, cmd, viaHS, replySeen, closed || herr != nil, honest); v != "" {
				return fail(oi, op, "%s", v)
			}
			if herr == nil && replySeen {
				c.keyed = c.encrypted
				if op.K == "run" {
					lastSess[kind] = c
				}
				if op.Keep {
					kept = c
				}
			}
			if kept != c {
				_ = c.cc.Close()
				<-c.done
			}
		case "follow":
			if kept == nil {
				continue
			}
			c := kept
			w.mu.Lock()
			w.curConn, w.keepNext = c.id, op.Keep
			w.mu.Unlock()
			st.nontrivial = true
			m := message.NewMessageForStream(c.cst)
			_ = m.PutInt(kit.Bg, cmd)
			if err := m.FinishMessage(kit.Bg); err != nil {
				kept = nil
				continue
			}
			replySeen, closed := readReply(c, cmd)
			if v := judge(oi, op, c, cmd, true, replySeen, closed, false); v != "" {
				return fail(oi, op, "follow-on: %s", v)
			}
			if closed || !op.Keep {
				_ = c.cc.Close()
				<-c.done
				kept = nil
			}
		case "raw":
			if kept != nil {
				_ = kept.cc.Close()
				<-kept.done
				kept = nil
			}
			w.connSeq++
			c := &conn{id: w.connSeq, done: make(chan struct{})}
			pa, pb := kit.NextPorts()
			c.cc, c.sc = kit.NewBufPipe(pa, pb)
			w.mu.Lock()
			w.curConn, w.keepNext = c.id, false
			w.mu.Unlock()
			go func() { _ = w.srv.ServeConn(context.Background(), c.sc); close(c.done) }()
			c.cst = stream.NewStream(c.cc)
			m := message.NewMessageForStream(c.cst)
			_ = m.PutInt(kit.Bg, cmd)
			_ = m.FinishMessage(kit.Bg)
			replySeen, closed := readReply(c, cmd)
			if v := judge(oi, op, nil, cmd, false, replySeen, closed, w.isRaw(cmd)); v != "" {
				return fail(oi, op, "bare command: %s", v)
			}
			_ = c.cc.Close()
			<-c.done
		case "sidonly":
			// a requester that only knows the session id of an earlier session, then sends a follow-on in the clear
			target := lastSess[kind]
			if target == nil || target.sid == "" {
				continue
			}
			if kept != nil {
				_ = kept.cc.Close()
				<-kept.done
				kept = nil
			}
			w.connSeq++
			c := &conn{id: w.connSeq, done: make(chan struct{}), authed: target.authed, user: target.user, encrypted: true}
			pa, pb := kit.NextPorts()
			c.cc, c.sc = kit.NewBufPipe(pa, pb)
			w.mu.Lock()
			w.curConn, w.keepNext = c.id, true
			w.mu.Unlock()
			go func() { _ = w.srv.ServeConn(context.Background(), c.sc); close(c.done) }()
			plog, _ := kit.ScriptedClient(c.cc, kit.PeerOpts{ResumeSid: target.sid, ResumeResponse: true, Command: cmd}, 2*time.Second)
			time.Sleep(20 * time.Millisecond)
			first := w.takeInvs()
			okFirst := plog.Err == nil && target.keyed && w.allowed(cmd, true, target.authed, true, target.user)
			for _, inv := range first {
				if !okFirst || inv.cmd != cmd {
					return fail(oi, op, "a requester knowing only a session id triggered the handler of command %d, which the model refuses for that session", inv.cmd)
				}
			}
			// now a second command, in the clear: must never run
			var mb kit.MsgBuf
			mb.Int(int64(authCmds[(op.Cmd+1)%len(authCmds)]))
			_, _ = c.cc.Write(mb.Frame())
			time.Sleep(30 * time.Millisecond)
			if more := w.takeInvs(); len(more) > 0 {
				return fail(oi, op, "a follow-on command sent in the clear by a requester without the session key ran the handler of command %d", more[0].cmd)
			}
			_ = c.cc.Close()
			<-c.done
			st.nontrivial = true
		}
		if policyChanged && (op.K == "run" || op.K == "resume") {
			st.nontrivial = true
		}
	}
	if kept != nil {
		_ = kept.cc.Close()
		<-kept.done
	}
	return "", st
}

func genCase(t *rapid.T) Case {
	var c Case
	c.Own = rapid.IntRange(0, 2).Draw(t, "own") == 0
	c.Map = rapid.IntRange(0, 2).Draw(t, "map") == 0
	n := rapid.IntRange(3, 10).Draw(t, "nops")
	for i := 0; i < n; i++ {
		k := rapid.SampledFrom([]string{"run", "run", "run", "follow", "follow", "resume", "resume", "raw", "policy", "policy", "authz", "authz", "authorizer", "restart", "sidonly", "inherit", "defpolicy", "register"}).Draw(t, "op")
		c.Ops = append(c.Ops, Op{K: k, Cmd: rapid.IntRange(0, 6).Draw(t, "cmd"), Kind: rapid.IntRange(0, 3).Draw(t, "kind"), Keep: rapid.Bool().Draw(t, "keep"),
			Auth: rapid.IntRange(0, 3).Draw(t, "auth"), Enc: rapid.IntRange(0, 3).Draw(t, "enc"), Integ: rapid.IntRange(0, 4).Draw(t, "integ") == 0,
			Perm: rapid.IntRange(0, 7).Draw(t, "perm"), User: rapid.IntRange(0, 2).Draw(t, "user"), On: rapid.Bool().Draw(t, "on"), Say: rapid.IntRange(0, 89).Draw(t, "say")})
	}
	return c
}

func record(c Case, st stats) {
	k := ""
	if st.nontrivial {
		b, _ := json.Marshal(c)
		k = string(b)
	}
	ev.Case("history", k)
	ev.Count("handler_invocations_checked", int64(st.invoked))
	ev.Count("requests_refused", int64(st.refused))
}

func TestC05Histories(t *testing.T) {
	rapid.Check(t, func(t *rapid.T) {
		c := genCase(t)
		v, st := runCase(c)
		record(c, st)
		ev.Sample("history", c)
		if v != "" {
			js, _ := json.Marshal(c)
			t.Fatalf("C05 violated: %s\ncase: %s", v, js)
		}
	})
}

// TestC05Directed: scenarios every run must contain.
func TestC05Directed(t *testing.T) {
	var cases []Case
	for kind := 0; kind < 4; kind++ {
		for first := 0; first < 4; first++ {
			for second := 0; second < 7; second++ {
				for _, strong := range []pol{{Auth: 0, Enc: 2}, {Auth: 2, Enc: 0}, {Auth: 2, Enc: 2, Integ: true}, {Auth: 0, Enc: 0}} {
					// weak first command kept alive, then a follow-on whose policy is strong; then resume with the strong command; then a sid-only requester
					says := []int{0}
					if kind == 3 { // the scripted client also states every level pair, with each kind of unusable key
						says = []int{0, 3, 6, 4, 8, 9 + 6, 18 + 3, 27 + 8, 36 + 4, 45 + 36 + 0, 45 + 36 + 1, 45 + 36 + 4, 45 + 0 + 3, 45 + 36 + 8}
					}
					for _, say := range says {
						cases = append(cases, Case{Ops: []Op{
							{K: "policy", Cmd: second % 4, Auth: strong.Auth, Enc: strong.Enc, Integ: strong.Integ},
							{K: "run", Cmd: first, Kind: kind, Keep: true, Say: say}, {K: "follow", Cmd: second, Keep: true}, {K: "follow", Cmd: first},
							{K: "resume", Cmd: second, Kind: kind}, {K: "sidonly", Cmd: second, Kind: kind}}})
						// the follow-on on a RESUMED, kept-alive connection: resume with the weak command, then ask for the strong one
						cases = append(cases, Case{Ops: []Op{
							{K: "policy", Cmd: second % 4, Auth: strong.Auth, Enc: strong.Enc, Integ: strong.Integ},
							{K: "run", Cmd: first, Kind: kind, Say: say}, {K: "resume", Cmd: first, Kind: kind, Keep: true},
							{K: "follow", Cmd: second, Keep: true}, {K: "follow", Cmd: first}}})
					}
				}
			}
		}
		// the strict policy comes from the server's default: the selector returns nil for the second command
		for first := 0; first < 4; first++ {
			for second := 0; second < 4; second++ {
				if first == second {
					continue
				}
				for _, strong := range []pol{{Auth: 0, Enc: 2}, {Auth: 2, Enc: 0}, {Auth: 0, Enc: 0, Integ: true}} {
					cases = append(cases, Case{Ops: []Op{
						{K: "defpolicy", Auth: strong.Auth, Enc: strong.Enc, Integ: strong.Integ}, {K: "inherit", Cmd: second, On: true},
						{K: "run", Cmd: first, Kind: kind, Keep: true}, {K: "follow", Cmd: second, Keep: true}, {K: "follow", Cmd: first},
						{K: "resume", Cmd: second, Kind: kind}, {K: "run", Cmd: second, Kind: kind}}})
				}
			}
		}
		// policy tightened after the session exists; authorizer switched on / table changed between connections
		cases = append(cases, Case{Ops: []Op{{K: "run", Cmd: 0, Kind: kind}, {K: "policy", Cmd: 0, Auth: 0, Enc: 0}, {K: "resume", Cmd: 0, Kind: kind}}})
		for u := 0; u < 3; u++ {
			cases = append(cases, Case{Ops: []Op{{K: "authorizer", On: true}, {K: "authz", Perm: 0, User: u, On: true}, {K: "run", Cmd: 0, Kind: kind, Keep: true}, {K: "follow", Cmd: 1}, {K: "run", Cmd: 2, Kind: kind},
				{K: "run", Cmd: 3, Kind: kind}, {K: "authz", Perm: 0, User: u, On: false}, {K: "resume", Cmd: 0, Kind: kind}, {K: "run", Cmd: 0, Kind: kind}}})
		}
		cases = append(cases, Case{Ops: []Op{{K: "run", Cmd: 4, Kind: kind}, {K: "run", Cmd: 6, Kind: kind}, {K: "raw", Cmd: 0}, {K: "raw", Cmd: 4}, {K: "raw", Cmd: 5}, {K: "raw", Cmd: 6},
			{K: "run", Cmd: 0, Kind: kind, Keep: true}, {K: "follow", Cmd: 4}, {K: "run", Cmd: 0, Kind: kind, Keep: true}, {K: "follow", Cmd: 6}}})
	}
	// identity mapping: the table authorises the RAW name only (nobody, then) or the mapped name; first connection,
	// follow-on, resumption with another command
	for kind := 0; kind < 2; kind++ {
		for _, say := range []int{0, 1} {
			cases = append(cases, Case{Map: true, Ops: []Op{{K: "authorizer", On: true}, {K: "authz", Perm: 0, User: kind, On: true, Say: say}, {K: "authz", Perm: 1, User: kind, On: true, Say: say},
				{K: "run", Cmd: 0, Kind: kind, Keep: true}, {K: "follow", Cmd: 1}, {K: "resume", Cmd: 1, Kind: kind, Keep: true}, {K: "follow", Cmd: 0}, {K: "resume", Cmd: 0, Kind: kind}}})
			// the session exists before the authorizer is switched on (so a raw-name table cannot stop it being made)
			cases = append(cases, Case{Map: true, Ops: []Op{{K: "run", Cmd: 0, Kind: kind, Keep: true}, {K: "follow", Cmd: 1}, {K: "authorizer", On: true},
				{K: "authz", Perm: 0, User: kind, On: true, Say: say}, {K: "authz", Perm: 1, User: kind, On: true, Say: say}, {K: "authz", Perm: 2, User: kind, On: true, Say: say},
				{K: "resume", Cmd: 1, Kind: kind, Keep: true}, {K: "follow", Cmd: 0}, {K: "follow", Cmd: 2}, {K: "resume", Cmd: 0, Kind: kind}, {K: "resume", Cmd: 2, Kind: kind}}})
		}
	}
	// every third scenario again on a server that has a session cache of its own
	for i, c := range append([]Case(nil), cases...) {
		if i%3 == 0 {
			cases = append(cases, Case{Ops: c.Ops, Own: true})
		}
	}
	// registration histories: the LAST Handle/HandleRaw call for a command decides its path, policy and levels
	regs := []Op{{K: "register", On: true}, {K: "register", Perm: 0}, {K: "register", Perm: 1}, {K: "register", Perm: 2}, {K: "register", Perm: 5}}
	for cmd := 0; cmd < 6; cmd++ {
		var seqs [][]Op
		for _, a := range regs {
			a.Cmd = cmd
			seqs = append(seqs, []Op{a})
			for _, b := range regs {
				b.Cmd = cmd
				seqs = append(seqs, []Op{a, b})
			}
		}
		for si, seq := range seqs {
			kind := si % 3 // CLAIMTOBE, TOKEN, unauthenticated
			ops := append([]Op{}, seq...)
			ops = append(ops, Op{K: "raw", Cmd: cmd}, Op{K: "run", Cmd: cmd, Kind: kind, Keep: true}, Op{K: "follow", Cmd: (cmd + 1) % 6},
				Op{K: "authorizer", On: true}, Op{K: "authz", Perm: 0, User: kind % 2, On: true},
				Op{K: "run", Cmd: cmd, Kind: kind}, Op{K: "raw", Cmd: cmd}, Op{K: "run", Cmd: (cmd + 1) % 6, Kind: kind, Keep: true}, Op{K: "follow", Cmd: cmd})
			cases = append(cases, Case{Ops: ops})
		}
	}
	bad := 0
	for i, c := range cases {
		v, st := runCase(c)
		record(c, st)
		if i%97 == 0 {
			ev.Sample("directed", c)
		}
		if v != "" {
			if bad < 6 {
				kit.Violation("C05", v, c)
				t.Errorf("C05 violated: %s", v)
			}
			bad++
		}
	}
	ev.Exhaustive("directed: 4 client kinds x 4 first commands x 7 follow-on/resumed commands x 4 strong policies (keep-alive follow-on, resume with the other command, session-id-only requester); policy tightening; authorizer table changes; raw/authenticated path crossings; 6 commands x every 1- and 2-step registration history over {raw, authenticated with 0/1/2 levels} probed bare, by handshake and as a follow-on")
}

func TestC05Replay(t *testing.T) {
	var c Case
	ok, err := kit.ReplayCase(&c)
	if !ok {
		t.Skip("no VERIF_REPLAY")
	}
	if err != nil {
		t.Fatal(err)
	}
	if v, _ := runCase(c); v != "" {
		t.Fatalf("C05 violated: %s", v)
	}
}
