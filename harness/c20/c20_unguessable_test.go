package c20

import (
	"encoding/hex"
	"fmt"
	"math/rand"
	"os"
	"testing"

	"verifharness/kit"
)

// TestC20Unguessable: the connect identifier is unguessable whatever the embedding program does with the
// shared pseudo-random generator: the program seeds math/rand with a known value (and has opted into the old
// seeding behaviour) before every dial; the identifiers must not repeat and must not be what that generator yields.
func TestC20Unguessable(t *testing.T) {
	old := os.Getenv("GODEBUG")
	_ = os.Setenv("GODEBUG", "randseednop=0")
	defer os.Setenv("GODEBUG", old)
	rounds := kit.Scale(4, 12)
	seen := map[string]int{}
	bad := 0
	for r := 0; r < rounds && bad == 0; r++ {
		seed := int64(4242 + r/2) // every seed is used twice
		rand.Seed(seed)           //nolint:staticcheck // deliberately the deprecated global seeding
		_, brokers := runDial(Case{Brokers: []BrokerScript{{Reply: "none"}}}, nil)
		brokers[0].mu.Lock()
		id := brokers[0].connID
		brokers[0].mu.Unlock()
		if id == "" {
			t.Fatalf("C20 harness: the broker saw no request")
		}
		var want [64]byte
		_, _ = rand.New(rand.NewSource(seed)).Read(want[:])
		v := ""
		switch {
		case seen[id] > 0:
			v = fmt.Sprintf("two dials of a program that re-seeds math/rand carried the same connect id %q (round %d and an earlier one)", id, r)
		case len(id) >= 16 && (hex.EncodeToString(want[:])[:len(id)] == id || hex.EncodeToString(want[:len(id)])[:len(id)] == id):
			v = fmt.Sprintf("the connect id %q is what math/rand yields for the program's seed %d: anyone who knows the seed knows the id", id, seed)
		}
		seen[id]++
		ev.Case("unguessable", fmt.Sprintf("unguessable:%d", r))
		if v != "" {
			bad++
			kit.Violation("C20", v, map[string]any{"unguessable_round": r})
			t.Errorf("C20 violated: %s", v)
		}
	}
}
