// Package c20 decides property C20: a CCB dial returns only the connection
// that presents the fresh connect id generated for that very request.
package c20

import (
	"errors"
	"bytes"
	"context"
	"encoding/json"
	"fmt"
	"net"
	"strings"
	"sync"
	"testing"
	"time"

	"github.com/PelicanPlatform/classad/classad"
	"github.com/bbockelm/cedar/addresses"
	"github.com/bbockelm/cedar/ccb"
	"github.com/bbockelm/cedar/message"
	"github.com/bbockelm/cedar/security"
	"github.com/bbockelm/cedar/stream"
	"pgregory.net/rapid"

	"verifharness/kit"
)

func TestMain(m *testing.M) { kit.Main(m) }

var ev = kit.Ev("C20")

func init() {
	ev.Rule("ccb.Dial against 1-3 scripted brokers (real server-side handshake, then scripted): on receiving the request ad each broker plays a generated script of arrivals at the requester's listener -- legit (correct id, then a per-request challenge token), " +
		"rogues (wrong id, empty id, id of an earlier request, id of the other broker's concurrent request, garbage bytes, valid hello with a wrong command, oversized ad, immediate close, connect-and-stay-silent) -- with a generated connect order, " +
		"an independent hello-send order and the broker's reply (success, failure with message, none, garbage) at a generated slot; proxied mode: hello with right/wrong/missing id on the request socket; staggers 0, small, negative; " +
		"oracle: a returned connection yields the legit peer's challenge token of THAT request; every rogue connection is observed closed by its owner and never returned; a failure reply from the only broker ends Dial with its message; " +
		"without a legit arrival Dial returns an error; non-trivial = a rogue arrives before the legit connection; distinct by script. A dial that times out behind a silent rogue is inconclusive (no liveness claim)")
}

type Arrival struct {
	Kind string `json:"kind"` // legit | wrong-id | empty-id | earlier-id | other-broker-id | garbage | wrong-command | oversized | close | silent | prefix-id | legit-no-token
}

type BrokerScript struct {
	Arrivals []Arrival `json:"arrivals"`
	Order    []int     `json:"order"` // event order: 2*i = connect arrival i, 2*i+1 = send hello of arrival i; -1 = broker reply
	Reply    string    `json:"reply"` // success | failure | none | garbage
	Down     bool      `json:"down"`  // broker refuses the connection
	// HangUp: having said "success" the broker closes its request socket at once (what a broker does whose handler
	// simply returns); the reverse connection it arranged may still be on its way
	HangUp bool `json:"hang_up,omitempty"`
}

type Case struct {
	Brokers []BrokerScript `json:"brokers"`
	Stagger int            `json:"stagger_ms"` // 0 default, -1 sequential, n
	Proxy   string         `json:"proxy"`      // "", "right", "wrong", "missing", "refuse", "empty", "retaddr"
	Second  bool           `json:"second"`     // perform a second dial reusing ids of the first for rogues
	// Nested: the contacts are multi-hop ("broker#3#7"): the requester sends one streaming request to the
	// entry broker and the hello comes back on that socket, as in proxied mode (Proxy selects the hello; "" = right)
	Nested bool `json:"nested,omitempty"`
}

const proxyReturnAddr = "<10.1.1.1:9618?ccbid=10.1.1.2:9618%231>"

var proxyKinds = []string{"right", "wrong", "missing", "refuse", "empty", "retaddr"}

type broker struct {
	ln      net.Listener
	script  BrokerScript
	mu      sync.Mutex
	connID  string // connect id of the request it received
	token   string
	rogues  []*rogueObs
	got     chan struct{}
	release chan struct{} // closed when the dial under test has returned
	others  func() []string
	earlier []string
	proxy   string
}

type rogueObs struct {
	kind   string
	closed bool
	conn   net.Conn
}

const failureMsg = "target daemon is not registered (scripted failure)"

func isFailure(reply string) bool { return strings.HasPrefix(reply, "failure") }

// endedByFailure: Dial's error is the broker's failure. With a message, the message is in it; a failure reply
// that explains nothing still ends the attempt, so the error is at least not the dial's own time limit.
func endedByFailure(err error, reply string) bool {
	if err == nil {
		return false
	}
	if reply == "failure" {
		return strings.Contains(err.Error(), failureMsg)
	}
	return !errors.Is(err, context.DeadlineExceeded) && !strings.Contains(err.Error(), "deadline exceeded") && !strings.Contains(err.Error(), "timed out")
}

func brokerConfig() *security.SecurityConfig {
	c := kit.BaseConfig(security.SecurityOptional, security.SecurityOptional, security.AuthClaimToBe)
	c.SessionCache = nil
	c.RemoteVersion = "$CondorVersion: 25.13.0 2026-01-01 BuildID: 1 $"
	return c
}

func hello(id string, cmd int, extra int) []byte {
	var mb kit.MsgBuf
	mb.Int(int64(cmd))
	exprs := []string{fmt.Sprintf("ClaimId = \"%s\"", id), `MyAddress = "<10.0.0.9:9618>"`}
	if id == "<absent>" {
		exprs = exprs[1:]
	}
	if extra > 0 {
		exprs = append(exprs, `Pad = "`+strings.Repeat("p", extra)+`"`)
	}
	mb.ClassAd(exprs, "", "")
	return mb.Frames(16000)
}

func (b *broker) serve(wg *sync.WaitGroup) {
	defer wg.Done()
	conn, err := b.ln.Accept()
	if err != nil {
		return
	}
	defer conn.Close()
	_ = conn.SetDeadline(time.Now().Add(5 * time.Second))
	st := stream.NewStream(conn)
	ctx, cancel := context.WithTimeout(context.Background(), 4*time.Second)
	defer cancel()
	if _, err := security.NewAuthenticator(brokerConfig(), st).ServerHandshake(ctx); err != nil {
		return
	}
	req, err := message.NewMessageFromStream(st).GetClassAdWithMaxSize(ctx, 65536)
	if err != nil {
		return
	}
	id, _ := req.EvaluateAttrString("ClaimId")
	back, _ := req.EvaluateAttrString("MyAddress")
	b.mu.Lock()
	b.connID = id
	b.token = "CHALLENGE-" + id + "-" + fmt.Sprint(time.Now().UnixNano())
	b.mu.Unlock()
	close(b.got)
	sendAd := func(ad *classad.ClassAd) {
		m := message.NewMessageForStream(st)
		_ = m.PutClassAd(ctx, ad)
		_ = m.FinishMessage(ctx)
	}
	reply := func() {
		switch b.script.Reply {
		case "success":
			ad := classad.New()
			_ = ad.Set("Result", true)
			sendAd(ad)
		case "failure":
			ad := classad.New()
			_ = ad.Set("Result", false)
			_ = ad.Set("ErrorString", failureMsg)
			sendAd(ad)
		case "failure-bare": // a failure with no explanation attached
			ad := classad.New()
			_ = ad.Set("Result", false)
			sendAd(ad)
		case "failure-empty":
			ad := classad.New()
			_ = ad.Set("Result", false)
			_ = ad.Set("ErrorString", "")
			sendAd(ad)
		case "garbage":
			_, _ = conn.Write([]byte{1, 0, 0, 0, 6, 'g', 'a', 'r', 'b', 'g', 'e'})
		}
	}
	if b.proxy != "" {
		// proxied mode: reply on the request socket, then the hello on the same socket
		ad := classad.New()
		if b.proxy == "refuse" {
			_ = ad.Set("Result", false)
			_ = ad.Set("ErrorString", failureMsg)
			sendAd(ad)
			return
		}
		_ = ad.Set("Result", true)
		_ = ad.Set("ProxyMode", true)
		sendAd(ad)
		hid := id
		switch b.proxy {
		case "wrong":
			hid = "0000" + id
			if len(id) > 4 {
				hid = "0000" + id[4:]
			}
			if hid == id {
				hid = "1111" + id[4:]
			}
		case "missing":
			hid = "<absent>"
		case "empty":
			hid = ""
		case "retaddr": // something the broker knows without having seen the id
			hid = proxyReturnAddr
		}
		hm := message.NewMessageForStream(st)
		_ = hm.PutInt(ctx, ccb.CommandReverseConnect)
		had := classad.New()
		if hid != "<absent>" {
			_ = had.Set("ClaimId", hid)
		}
		_ = had.Set("MyAddress", "<10.0.0.9:9618>")
		_ = hm.PutClassAdWithOptions(ctx, had, &message.PutClassAdConfig{Options: message.PutClassAdIncludePrivate})
		_ = hm.FinishMessage(ctx)
		// what follows the hello is the proxied peer's own traffic: raw bytes relayed by the broker
		_ = stream.NewStream(conn).SendMessage(ctx, []byte(b.token))
		// observe whether the requester closes the socket
		_ = conn.SetReadDeadline(time.Now().Add(1000 * time.Millisecond))
		buf := make([]byte, 64)
		_, rerr := conn.Read(buf)
		b.mu.Lock()
		b.rogues = append(b.rogues, &rogueObs{kind: "proxy-" + b.proxy, closed: rerr != nil && !isTimeout(rerr)})
		b.mu.Unlock()
		return
	}
	target := strings.Trim(back, "<>")
	conns := make([]net.Conn, len(b.script.Arrivals))
	var rw sync.WaitGroup
	doHello := func(i int) {
		a := b.script.Arrivals[i]
		c := conns[i]
		if c == nil {
			return
		}
		wrong := "ffff" + id[4:]
		switch a.Kind {
		case "legit":
			_, _ = c.Write(hello(id, ccb.CommandReverseConnect, 0))
			_ = stream.NewStream(c).SendMessage(ctx, []byte(b.token))
			return
		case "legit-no-token":
			_, _ = c.Write(hello(id, ccb.CommandReverseConnect, 0))
			return
		case "wrong-id":
			_, _ = c.Write(hello(wrong, ccb.CommandReverseConnect, 0))
		case "prefix-id":
			_, _ = c.Write(hello(id[:len(id)-1], ccb.CommandReverseConnect, 0))
		case "empty-id":
			_, _ = c.Write(hello("", ccb.CommandReverseConnect, 0))
		case "earlier-id":
			e := wrong
			if len(b.earlier) > 0 {
				e = b.earlier[0]
			}
			_, _ = c.Write(hello(e, ccb.CommandReverseConnect, 0))
		case "other-broker-id":
			// the id another broker's request of the same dial carries (that broker, or anyone it told, knows it)
			o := wrong
			for _, x := range b.others() {
				if x != "" {
					o = x
				}
			}
			_, _ = c.Write(hello(o, ccb.CommandReverseConnect, 0))
		case "garbage":
			_, _ = c.Write(kit.Pattern(40, 77))
		case "wrong-command":
			_, _ = c.Write(hello(id, ccb.CommandReverseConnect+1, 0))
		case "oversized":
			_, _ = c.Write(hello(id, ccb.CommandReverseConnect, 70000))
		case "close":
			_ = c.Close()
			return
		case "silent":
			time.Sleep(120 * time.Millisecond)
			_ = c.Close()
			return
		}
		// a rogue: watch for the requester closing the connection
		ro := &rogueObs{kind: a.Kind, conn: c}
		b.mu.Lock()
		b.rogues = append(b.rogues, ro)
		b.mu.Unlock()
		rw.Add(1)
		go func() {
			defer rw.Done()
			_ = c.SetReadDeadline(time.Now().Add(1100 * time.Millisecond))
			buf := make([]byte, 256)
			for {
				_, err := c.Read(buf)
				if err != nil {
					ro.closed = !isTimeout(err)
					return
				}
			}
		}()
	}
	for _, ev := range b.script.Order {
		switch {
		case ev == -1:
			reply()
			if b.script.HangUp && b.script.Reply == "success" && b.proxy == "" {
				_ = conn.Close()
				// give the requester time to notice the hang-up before anything else happens: what follows (the
				// reverse connection) must still be waited for
				time.Sleep(150 * time.Millisecond)
			}
		case ev%2 == 0:
			i := ev / 2
			if i < len(conns) {
				c, err := net.DialTimeout("tcp", target, time.Second)
				if err == nil {
					conns[i] = c
				}
			}
		default:
			i := ev / 2
			if i < len(conns) {
				doHello(i)
			}
		}
	}
	rw.Wait()
	for i, c := range conns {
		if c != nil && !strings.HasPrefix(b.script.Arrivals[i].Kind, "legit") {
			_ = c.Close()
		}
	}
	// a broker that has nothing (more) to say keeps the request socket open until the dial is over: closing
	// it is itself a verdict (the requester reads it as the broker failing), which the script did not ask for
	select {
	case <-b.release:
	case <-time.After(3 * time.Second):
	}
}

func isTimeout(err error) bool {
	ne, ok := err.(net.Error)
	return ok && ne.Timeout()
}

type dialOutcome struct {
	conn     net.Conn
	err      error
	token    string
	tokenErr error
	elapsed  time.Duration
}

func runDial(c Case, earlier []string) (dialOutcome, []*broker) {
	return runDialT(c, earlier, 700*time.Millisecond)
}

func deadlineErr(err error) bool {
	return err != nil && (errors.Is(err, context.DeadlineExceeded) || strings.Contains(err.Error(), "deadline exceeded") || strings.Contains(err.Error(), "timed out"))
}

func runDialT(c Case, earlier []string, limit time.Duration) (dialOutcome, []*broker) {
	var brokers []*broker
	var contacts []addresses.CCBContact
	var wg sync.WaitGroup
	for _, bs := range c.Brokers {
		ln, err := net.Listen("tcp", "127.0.0.1:0")
		if err != nil {
			panic(err)
		}
		b := &broker{ln: ln, script: bs, got: make(chan struct{}), release: make(chan struct{}), earlier: earlier, proxy: c.Proxy}
		if c.Nested && b.proxy == "" {
			b.proxy = "right"
		}
		addr := ln.Addr().String()
		if bs.Down {
			// a broker that is down: an address nobody listens on. (Not the port just closed: a check
			// running beside this one could bind it.) Distinct down brokers get distinct loopback hosts.
			_ = ln.Close()
			addr = fmt.Sprintf("127.0.0.%d:1", 2+len(brokers))
		} else {
			wg.Add(1)
			go b.serve(&wg)
		}
		brokers = append(brokers, b)
		if c.Nested {
			contacts = append(contacts, addresses.CCBContact{BrokerAddr: addr + "#3", CCBID: "7", Raw: addr + "#3#7"})
		} else {
			contacts = append(contacts, addresses.CCBContact{BrokerAddr: addr, CCBID: "7", Raw: addr + "#7"})
		}
	}
	for _, b := range brokers {
		self := b
		b.others = func() []string {
			var ids []string
			for _, o := range brokers {
				if o == self {
					continue
				}
				o.mu.Lock()
				ids = append(ids, o.connID)
				o.mu.Unlock()
			}
			return ids
		}
	}
	sec := kit.BaseConfig(security.SecurityOptional, security.SecurityOptional, security.AuthClaimToBe)
	opts := ccb.DialOptions{Security: sec, ListenAddr: "127.0.0.1:0", Timeout: limit, TargetDesc: "verif-target"}
	switch {
	case c.Stagger < 0:
		opts.Stagger = -1
	case c.Stagger > 0:
		opts.Stagger = time.Duration(c.Stagger) * time.Millisecond
	}
	if c.Proxy != "" && !(c.Nested && c.Stagger == 1) { // nested dials run with and without a return address
		opts.ProxyReturnAddr = proxyReturnAddr
	}
	var o dialOutcome
	t0 := time.Now()
	o.conn, o.err = ccb.Dial(context.Background(), contacts, opts)
	o.elapsed = time.Since(t0)
	for _, b := range brokers {
		close(b.release)
	}
	if o.conn != nil {
		_ = o.conn.SetReadDeadline(time.Now().Add(1500 * time.Millisecond))
		m, err := stream.NewStream(o.conn).ReceiveCompleteMessage(context.Background())
		o.token, o.tokenErr = string(m), err
	}
	done := make(chan struct{})
	go func() { wg.Wait(); close(done) }()
	select {
	case <-done:
	case <-time.After(6 * time.Second):
	}
	if o.conn != nil {
		_ = o.conn.Close()
	}
	for _, b := range brokers {
		_ = b.ln.Close()
	}
	return o, brokers
}

func hasLegit(bs BrokerScript) bool {
	if bs.Down {
		return false
	}
	for i, a := range bs.Arrivals {
		if a.Kind == "legit" {
			// it must both connect and send its hello
			conn, hl := false, false
			for _, e := range bs.Order {
				if e == 2*i {
					conn = true
				}
				if e == 2*i+1 && conn {
					hl = true
				}
			}
			if hl {
				return true
			}
		}
	}
	return false
}

func judge(c Case, o dialOutcome, brokers []*broker) (string, bool) {
	silent := false
	rogueFirst := false
	for _, b := range c.Brokers {
		seenLegit := false
		for _, e := range b.Order {
			if e >= 0 && e%2 == 0 && e/2 < len(b.Arrivals) {
				k := b.Arrivals[e/2].Kind
				if k == "legit" {
					seenLegit = true
				} else if !seenLegit {
					rogueFirst = true
				}
				if k == "silent" {
					silent = true
				}
			}
		}
	}
	if o.conn != nil {
		ok := false
		for _, b := range brokers {
			b.mu.Lock()
			if b.token != "" && o.token == b.token {
				ok = true
			}
			b.mu.Unlock()
		}
		if !ok {
			return fmt.Sprintf("Dial returned a connection that is not the legitimate one: reading from it gave %q (err %v), not the challenge token of a request of this dial", o.token, o.tokenErr), rogueFirst
		}
	}
	anyLegit := false
	for _, b := range c.Brokers {
		if c.Proxy == "" && hasLegit(b) {
			anyLegit = true
		}
	}
	allDown := true
	for _, b := range c.Brokers {
		if !b.Down {
			allDown = false
		}
	}
	if (c.Proxy == "right" || c.Nested && c.Proxy == "") && !allDown {
		anyLegit = true
	}
	// the identifier itself: 20 random bytes in hex in this implementation; anything short, empty or equal
	// to something a third party knows is not "fresh and unguessable"
	for i, b := range brokers {
		select {
		case <-b.got:
			b.mu.Lock()
			id := b.connID
			b.mu.Unlock()
			if len(id) < 16 || id == proxyReturnAddr || strings.Contains(id, "10.1.1.1") {
				return fmt.Sprintf("the request sent to broker %d carries connect id %q: not a fresh unguessable identifier", i, id), rogueFirst
			}
		default:
		}
	}
	if !anyLegit && o.conn != nil {
		return "Dial returned a connection although no legitimate reverse connection was made", rogueFirst
	}
	for _, b := range brokers {
		b.mu.Lock()
		for _, r := range b.rogues {
			if !r.closed && r.kind != "proxy-right" {
				b.mu.Unlock()
				return fmt.Sprintf("a rogue connection (%s) was not closed by the requester", r.kind), rogueFirst
			}
		}
		b.mu.Unlock()
	}
	if len(c.Brokers) == 1 && c.Proxy == "" && !c.Nested && !c.Brokers[0].Down && isFailure(c.Brokers[0].Reply) && !hasLegit(c.Brokers[0]) {
		replied := false
		for _, e := range c.Brokers[0].Order {
			if e == -1 {
				replied = true
			}
		}
		if replied && !endedByFailure(o.err, c.Brokers[0].Reply) && !silent {
			return fmt.Sprintf("the only broker reported a failure but Dial returned err=%v", o.err), rogueFirst
		}
	}
	// several brokers, every one of them up and reporting a failure (and no legitimate connection anywhere):
	// the dial ends with those failures, it does not sit out its time limit and drop them
	if len(c.Brokers) >= 2 && c.Proxy == "" && !c.Nested && !silent {
		allFail := true
		for _, b := range c.Brokers {
			replied := false
			for _, e := range b.Order {
				if e == -1 {
					replied = true
				}
			}
			if b.Down || !isFailure(b.Reply) || !replied || hasLegit(b) {
				allFail = false
			}
		}
		worst := "failure" // the message is demanded only when every broker gave it
		for _, b := range c.Brokers {
			if b.Reply != "failure" {
				worst = "failure-bare"
			}
		}
		if allFail && !endedByFailure(o.err, worst) {
			return fmt.Sprintf("all %d brokers reported a failure but Dial returned err=%v after %v", len(c.Brokers), o.err, o.elapsed.Round(time.Millisecond)), rogueFirst
		}
	}
	if c.Proxy == "refuse" && len(c.Brokers) == 1 && !allDown && (o.err == nil || !strings.Contains(o.err.Error(), failureMsg)) {
		return fmt.Sprintf("proxied mode: the broker refused with a message but Dial returned err=%v", o.err), rogueFirst
	}
	if (c.Proxy == "wrong" || c.Proxy == "missing" || c.Proxy == "empty" || c.Proxy == "retaddr") && o.err == nil {
		return "proxied mode: a hello with a wrong/missing/empty/guessable id was accepted", rogueFirst
	}
	// non-vacuity: a lone legit arrival with no silent rogue in front must be returned
	if anyLegit && o.conn == nil && !silent && len(c.Brokers) == 1 && !isFailure(c.Brokers[0].Reply) && c.Brokers[0].Reply != "garbage" {
		return fmt.Sprintf("non-vacuity: the legitimate connection was made but Dial failed: %v", o.err), rogueFirst
	}
	return "", rogueFirst
}

// freshIDs: every request of a dial carries its own connect id.
func freshIDs(brokers []*broker) string {
	seen := map[string]int{}
	for i, b := range brokers {
		b.mu.Lock()
		id := b.connID
		b.mu.Unlock()
		if id == "" {
			continue
		}
		if j, dup := seen[id]; dup {
			return fmt.Sprintf("the requests sent to broker %d and broker %d of one dial carry the same connect id: it is not generated for that very request", j, i)
		}
		seen[id] = i
	}
	return ""
}

func runCase(c Case) (string, bool) {
	o, brokers := runDial(c, nil)
	v, nt := judge(c, o, brokers)
	if v != "" && deadlineErr(o.err) {
		// the verdict rests on Dial having run into its own 700 ms limit: on a busy machine that says nothing.
		// The same case again with a limit no honest exchange needs; only what still fails then counts.
		ev.Class("rerun-with-a-patient-time-limit")
		o, brokers = runDialT(c, nil, 8*time.Second)
		v, nt = judge(c, o, brokers)
	}
	if v == "" {
		v = freshIDs(brokers)
	}
	if v != "" || !c.Second {
		return v, nt
	}
	var earlier []string
	for _, b := range brokers {
		if b.connID != "" {
			earlier = append(earlier, b.connID)
		}
	}
	o2, brokers2 := runDial(c, earlier)
	v2, nt2 := judge(c, o2, brokers2)
	if v2 != "" {
		return "second dial (rogues reuse ids of the first): " + v2, true
	}
	for _, b := range brokers2 {
		for _, e := range earlier {
			if b.connID == e {
				return "two dials used the same connect id", true
			}
		}
	}
	return "", nt || nt2
}

var rogueKinds = []string{"wrong-id", "empty-id", "earlier-id", "other-broker-id", "garbage", "wrong-command", "oversized", "close", "silent", "prefix-id"}

func genBroker(t *rapid.T) BrokerScript {
	var bs BrokerScript
	n := rapid.IntRange(0, 4).Draw(t, "narrivals")
	legitAt := -1
	if n > 0 && rapid.IntRange(0, 4).Draw(t, "haslegit") > 0 {
		legitAt = rapid.IntRange(0, n-1).Draw(t, "legitat")
	}
	for i := 0; i < n; i++ {
		k := "legit"
		if i != legitAt {
			k = rapid.SampledFrom(rogueKinds).Draw(t, "rogue")
		}
		bs.Arrivals = append(bs.Arrivals, Arrival{k})
	}
	// events: connect(i) before hello(i); the reply at a generated slot
	var pending []int
	for i := 0; i < n; i++ {
		pending = append(pending, 2*i)
	}
	if rapid.IntRange(0, 5).Draw(t, "hasreply") > 0 {
		pending = append(pending, -1)
	}
	for len(pending) > 0 {
		j := rapid.IntRange(0, len(pending)-1).Draw(t, "next")
		e := pending[j]
		pending = append(pending[:j], pending[j+1:]...)
		bs.Order = append(bs.Order, e)
		if e >= 0 && e%2 == 0 {
			pending = append(pending, e+1)
		}
	}
	bs.Reply = rapid.SampledFrom([]string{"success", "success", "failure", "failure-bare", "failure-empty", "none", "garbage"}).Draw(t, "reply")
	bs.Down = rapid.IntRange(0, 9).Draw(t, "down") == 0
	bs.HangUp = rapid.IntRange(0, 2).Draw(t, "hangup") == 0
	return bs
}

func TestC20Scripts(t *testing.T) {
	rapid.Check(t, func(t *rapid.T) {
		var c Case
		nb := rapid.SampledFrom([]int{1, 1, 1, 2, 3}).Draw(t, "nbrokers")
		for i := 0; i < nb; i++ {
			c.Brokers = append(c.Brokers, genBroker(t))
		}
		c.Stagger = rapid.SampledFrom([]int{0, 1, 30, -1}).Draw(t, "stagger")
		c.Second = rapid.IntRange(0, 3).Draw(t, "second") == 0
		if rapid.IntRange(0, 6).Draw(t, "proxy") == 0 {
			c.Proxy = rapid.SampledFrom(proxyKinds).Draw(t, "proxykind")
		}
		c.Nested = rapid.IntRange(0, 5).Draw(t, "nested") == 0
		v, nt := runCase(c)
		k := ""
		if nt {
			b, _ := json.Marshal(c)
			k = string(b)
		}
		class := fmt.Sprintf("brokers:%d", nb)
		if c.Proxy != "" {
			class = "proxied:" + c.Proxy
		}
		if c.Nested {
			class = "nested/" + class
		}
		ev.Case(class, k)
		ev.Sample("script", c)
		if v != "" {
			js, _ := json.Marshal(c)
			t.Fatalf("C20 violated: %s\ncase: %s", v, js)
		}
	})
}

// TestC20Permutations: every rogue kind in front of / behind the legit connection, every interleaving of two arrivals.
func TestC20Permutations(t *testing.T) {
	var cases []Case
	var classes []string
	orders := [][]int{{0, 1, 2, 3}, {0, 2, 1, 3}, {0, 2, 3, 1}, {2, 0, 1, 3}, {2, 0, 3, 1}, {2, 3, 0, 1}}
	n := 0
	for _, rk := range rogueKinds {
		for _, legitFirst := range []bool{true, false} {
			for oi, ord := range orders {
				for _, reply := range []string{"success", "none", "failure", "failure-bare"} {
					n++
					if !kit.Thorough() && (oi+n)%2 == 0 {
						continue
					}
					arr := []Arrival{{"legit"}, {rk}}
					if !legitFirst {
						arr = []Arrival{{rk}, {"legit"}}
					}
					order := append([]int{}, ord...)
					if reply != "none" {
						pos := n % (len(order) + 1)
						order = append(order[:pos], append([]int{-1}, order[pos:]...)...)
					}
					cases = append(cases, Case{Brokers: []BrokerScript{{Arrivals: arr, Order: order, Reply: reply, HangUp: reply == "success" && n%2 == 0}}})
					classes = append(classes, "perm:"+rk)
				}
			}
		}
	}
	for _, rk := range append([]string{""}, rogueKinds[:3]...) { // success, hang-up, THEN the (rogue and) legitimate connection
		arr, order := []Arrival{{"legit"}}, []int{-1, 0, 1}
		if rk != "" {
			arr, order = []Arrival{{rk}, {"legit"}}, []int{-1, 0, 1, 2, 3}
		}
		cases = append(cases, Case{Brokers: []BrokerScript{{Arrivals: arr, Order: order, Reply: "success", HangUp: true}}})
		classes = append(classes, "perm:hang-up-then-legit")
	}
	for _, rk := range rogueKinds { // no legit at all
		for _, reply := range []string{"success", "failure", "failure-bare", "failure-empty", "none", "garbage"} {
			cases = append(cases, Case{Brokers: []BrokerScript{{Arrivals: []Arrival{{rk}, {rk}}, Order: []int{0, 2, 1, -1, 3}, Reply: reply}}})
			classes = append(classes, "perm:no-legit")
		}
	}
	for _, p := range proxyKinds {
		cases = append(cases, Case{Brokers: []BrokerScript{{}}, Proxy: p})
		classes = append(classes, "proxied:"+p)
		for _, stg := range []int{0, 1} { // nested contacts, with and without a return address
			cases = append(cases, Case{Brokers: []BrokerScript{{}}, Proxy: p, Nested: true, Stagger: stg})
			classes = append(classes, "proxied:nested:"+p)
		}
	}
	cases = append(cases, Case{Brokers: []BrokerScript{{}}, Nested: true}, Case{Brokers: []BrokerScript{{Down: true}, {}}, Nested: true, Stagger: -1})
	classes = append(classes, "proxied:nested", "proxied:nested")
	for _, stg := range []int{0, 1, -1} { // two and three brokers, all reporting failure
		for nb := 2; nb <= 3; nb++ {
			var bs []BrokerScript
			for _, reply := range []string{"failure", "failure-bare", "failure-empty"} {
				bs = nil
				for i := 0; i < nb; i++ {
					bs = append(bs, BrokerScript{Order: []int{-1}, Reply: reply})
				}
				cases = append(cases, Case{Stagger: stg, Brokers: bs})
				classes = append(classes, "all-brokers-fail")
			}
		}
	}
	// two brokers: the rogue at A presents B's id; staggers
	for _, stg := range []int{0, 1, -1} {
		cases = append(cases, Case{Stagger: stg, Brokers: []BrokerScript{
			{Arrivals: []Arrival{{"other-broker-id"}, {"legit"}}, Order: []int{0, 1, 2, 3}, Reply: "none"},
			{Arrivals: []Arrival{{"other-broker-id"}}, Order: []int{0, 1}, Reply: "none"}}})
		classes = append(classes, "two-brokers")
		cases = append(cases, Case{Stagger: stg, Brokers: []BrokerScript{{Down: true}, {Arrivals: []Arrival{{"wrong-id"}, {"legit"}}, Order: []int{0, 2, 1, 3}, Reply: "success"}}})
		classes = append(classes, "two-brokers")
	}
	var mu sync.Mutex
	bad := 0
	sem := make(chan struct{}, 16)
	var wg sync.WaitGroup
	for i := range cases {
		if i%kit.NShards() != kit.Shard() {
			continue
		}
		wg.Add(1)
		sem <- struct{}{}
		go func(i int) {
			defer wg.Done()
			defer func() { <-sem }()
			c := cases[i]
			v, nt := runCase(c)
			k := ""
			if nt || classes[i] == "perm:no-legit" || strings.HasPrefix(classes[i], "proxied") {
				b, _ := json.Marshal(c)
				k = string(b)
			}
			ev.Case(classes[i], k)
			if v != "" {
				mu.Lock()
				if bad < 5 {
					kit.Violation("C20", v, c)
					t.Errorf("C20 violated: %s", v)
				}
				bad++
				mu.Unlock()
			}
		}(i)
	}
	wg.Wait()
	ev.Exhaustive("every rogue kind before/after the legit connection x 6 interleavings of connect/hello events x 3 broker replies (half of them in quick); no-legit scripts for every rogue kind x 4 replies; 4 proxied-mode hellos; two-broker scripts x 3 staggers")
}

func TestC20Replay(t *testing.T) {
	var c Case
	ok, err := kit.ReplayCase(&c)
	if !ok {
		t.Skip("no VERIF_REPLAY")
	}
	if err != nil {
		t.Fatal(err)
	}
	if v, _ := runCase(c); v != "" {
		t.Fatalf("C20 violated: %s", v)
	}
}

var _ = bytes.Equal
