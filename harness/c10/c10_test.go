// Package c10 decides property C10: two honest cedar endpoints negotiate by
// the policy table and agree on the result.
package c10

import (
	"bytes"
	"encoding/json"
	"errors"
	"fmt"
	"io"
	"math/rand"
	"net"
	"strings"
	"sync"
	"testing"
	"time"

	"github.com/bbockelm/cedar/security"

	"verifharness/kit"
)

func TestMain(m *testing.M) { kit.Main(m) }

var ev = kit.Ev("C10")

func init() {
	ev.Rule("configuration = (client auth, server auth, client enc, server enc) in {REQUIRED,PREFERRED,OPTIONAL,NEVER}^4 x method-list shape " +
		"{identical, overlapping in opposite orders, disjoint, one side empty, only an unimplemented or unknown method in common, unimplemented first then usable} over CLAIMTOBE/FS/TOKEN " +
		"x cipher lists {AES both, none in common, client empty, AES and legacy names in the same/opposite/longer orders on either side, only a legacy name in common} x {command, auth-only}; real client and real server over an in-memory connection; " +
		"oracle: independently written decision table (fail / authentication runs / encryption on), explicit denial on failure, both ends report the same Authentication, Encryption, SessionId and " +
		"exchange a probe message each way; non-trivial = any cell except all-OPTIONAL with identical lists; distinct by configuration")
	ev.Assume("'authentication ran' is observed on the wire tap (the client sent a method bitmask message), not taken from cedar's report")
}

type Config struct {
	CA, SA, CE, SE int    `json:"-"`
	Levels         string `json:"levels"` // e.g. "RPON" = client auth, server auth, client enc, server enc
	Shape          int    `json:"shape"`
	Cipher         int    `json:"cipher"`
	Command        bool   `json:"command"`
}

var levels = []security.SecurityLevel{security.SecurityRequired, security.SecurityPreferred, security.SecurityOptional, security.SecurityNever}
var levelCh = "RPON"

const (
	req = iota
	pref
	opt
	never
)

type shape struct {
	name     string
	c, s     []security.AuthMethod
	usable   bool
}

var tokenEnv *kit.TokenEnv

var shapes []shape

func initShapes() {
	C, F, T := security.AuthClaimToBe, security.AuthFS, security.AuthToken
	P, U := security.AuthPassword, security.AuthMethod("FOOBAR")
	shapes = []shape{
		{"identical-claimtobe", []security.AuthMethod{C}, []security.AuthMethod{C}, true},
		{"opposite-orders", []security.AuthMethod{C, F}, []security.AuthMethod{F, C}, true},
		{"disjoint", []security.AuthMethod{C}, []security.AuthMethod{F}, false},
		{"client-empty", nil, []security.AuthMethod{C, F}, false},
		{"server-empty", []security.AuthMethod{F}, nil, false},
		{"only-unimplemented-common", []security.AuthMethod{P, C}, []security.AuthMethod{P, F}, false},
		{"only-unknown-common", []security.AuthMethod{U}, []security.AuthMethod{U}, false},
		{"unimplemented-first", []security.AuthMethod{P, C}, []security.AuthMethod{P, C}, true},
		{"identical-fs", []security.AuthMethod{F}, []security.AuthMethod{F}, true},
		{"token", []security.AuthMethod{T}, []security.AuthMethod{T}, true},
		{"token-then-fs/fs-then-token", []security.AuthMethod{T, F}, []security.AuthMethod{F, T}, true},
		// names that carry no method bit at all (unknown to the bitmask, or NONE) ahead of the usable method
		{"server-unknown-first", []security.AuthMethod{C}, []security.AuthMethod{security.AuthMethod("GSI"), C}, true},
		{"server-none-first", []security.AuthMethod{C, F}, []security.AuthMethod{security.AuthNone, F}, true},
		{"client-unknown-first", []security.AuthMethod{security.AuthMethod("MUNGE"), F, C}, []security.AuthMethod{C}, true},
		{"both-unknown-first", []security.AuthMethod{U, C}, []security.AuthMethod{security.AuthMethod("ANONYMOUS"), U, C}, true},
	}
}

// cipher-list shapes. cedar protects streams with AES-GCM only; BLOWFISH and 3DES are names it can list and
// negotiate about but not use, so "a mutually supported method" means AES on both lists, wherever it stands.
var (
	aes, bf, des = security.CryptoAES, security.CryptoBlowfish, security.Crypto3DES
	ciphers      = []struct {
		name   string
		c, s   []security.CryptoMethod // s nil: the base configuration's list (AES)
		common bool
	}{
		{"aes-both", nil, nil, true},
		{"none-in-common", []security.CryptoMethod{bf}, nil, false},
		{"client-empty", nil, nil, false},
		{"legacy-first-on-client", []security.CryptoMethod{bf, aes}, []security.CryptoMethod{aes, bf}, true},
		{"legacy-first-on-server", []security.CryptoMethod{aes, bf}, []security.CryptoMethod{bf, aes}, true},
		{"client-long-list", []security.CryptoMethod{des, bf, aes}, []security.CryptoMethod{aes}, true},
		{"server-long-list", []security.CryptoMethod{aes}, []security.CryptoMethod{bf, des, aes}, true},
		{"only-legacy-common", []security.CryptoMethod{bf, aes}, []security.CryptoMethod{bf, des}, false},
	}
)

type expect struct {
	fail    bool
	authRun bool
	encMust bool
}

// table is the independently written decision table from the property text.
func table(c Config, sh shape) expect {
	var e expect
	commonCipher := ciphers[c.Cipher].common
	authReq := c.CA == req || c.SA == req
	encReq := c.CE == req || c.SE == req
	conflict := func(a, b int) bool { return (a == req && b == never) || (a == never && b == req) }
	e.fail = conflict(c.CA, c.SA) || conflict(c.CE, c.SE) || (authReq && !sh.usable) || (encReq && !commonCipher)
	anyNever := c.CA == never || c.SA == never
	anyPref := c.CA == pref || c.SA == pref
	e.authRun = authReq || (anyPref && !anyNever && sh.usable)
	e.encMust = encReq
	return e
}

func isBareClose(err error) bool {
	if err == nil {
		return false
	}
	if errors.Is(err, io.EOF) || errors.Is(err, io.ErrUnexpectedEOF) || errors.Is(err, net.ErrClosed) || errors.Is(err, io.ErrClosedPipe) {
		return true
	}
	s := err.Error()
	return strings.HasSuffix(s, ": EOF") || strings.Contains(s, "use of closed")
}

func mkConfigs(c Config, sh shape) (*security.SecurityConfig, *security.SecurityConfig) {
	cc := kit.BaseConfig(levels[c.CA], levels[c.CE], sh.c...)
	sc := kit.BaseConfig(levels[c.SA], levels[c.SE], sh.s...)
	cc.AuthMethods, sc.AuthMethods = sh.c, sh.s
	if c.Cipher != 0 {
		cc.CryptoMethods = append([]security.CryptoMethod(nil), ciphers[c.Cipher].c...)
		if ciphers[c.Cipher].s != nil {
			sc.CryptoMethods = append([]security.CryptoMethod(nil), ciphers[c.Cipher].s...)
		}
	}
	if !c.Command {
		cc.Command = security.NoCommand
	}
	tokenEnv.Apply(cc, sc)
	return cc, sc
}

func runConfig(c Config) (string, string) {
	sh := shapes[c.Shape]
	cc, sc := mkConfigs(c, sh)
	return judgeHandshake(c, kit.Handshake(cc, sc, 10*time.Second))
}

// runPerCommand: the server's policy for the command is ONE policy object handed out by
// ServerConfigForCommand on every connection (as an application keeping a table of per-command
// policies does) over an all-OPTIONAL base policy; three connections in a row, each a full handshake.
func runPerCommand(c Config) (string, string) {
	sh := shapes[c.Shape]
	_, pol := mkConfigs(c, sh)
	class := ""
	for conn := 0; conn < 3; conn++ {
		cc, _ := mkConfigs(c, sh) // a fresh client (own empty cache): no resumption
		base := *pol
		base.Authentication, base.Encryption, base.Integrity = security.SecurityOptional, security.SecurityOptional, security.SecurityOptional
		base.ECDHPublicKey = ""
		r := kit.HandshakeHook(cc, &base, 10*time.Second, func(a *security.Authenticator) {
			a.ServerConfigForCommand = func(command int) *security.SecurityConfig {
				if command == cc.Command {
					return pol
				}
				return nil
			}
		})
		var v string
		v, class = judgeHandshake(c, r)
		if v != "" {
			return fmt.Sprintf("per-command policy object reused, connection #%d: %s", conn+1, v), class
		}
	}
	return "", "per-command/" + class
}

func judgeHandshake(c Config, r *kit.HSResult) (string, string) {
	return judgeHandshakeShape(c, shapes[c.Shape], r)
}

func judgeHandshakeShape(c Config, sh shape, r *kit.HSResult) (string, string) {
	e := table(c, sh)
	class := "succeeds"
	if e.fail {
		class = "fails"
	}
	if r.TimedOut {
		return "handshake between two honest endpoints did not finish", class
	}
	if e.fail {
		if r.CErr == nil || r.SErr == nil {
			return fmt.Sprintf("the table says this handshake must fail, but client err=%v server err=%v", r.CErr, r.SErr), class
		}
		if isBareClose(r.CErr) {
			return fmt.Sprintf("the handshake failed but the client saw a bare close instead of an explicit denial: %v (server: %v)", r.CErr, r.SErr), class
		}
		return "", class
	}
	if r.CErr != nil || r.SErr != nil {
		return fmt.Sprintf("the table says this handshake must succeed, but client err=%v / server err=%v", r.CErr, r.SErr), class
	}
	authRan := len(r.CConn.Written()) >= 2 // ad, then a method bitmask message
	if authRan != e.authRun {
		return fmt.Sprintf("authentication ran=%v on the wire, the table says %v", authRan, e.authRun), class
	}
	if r.CNeg.Authentication != r.SNeg.Authentication {
		return fmt.Sprintf("endpoints disagree on Authentication: client %v server %v", r.CNeg.Authentication, r.SNeg.Authentication), class
	}
	if r.CNeg.Authentication != authRan {
		return fmt.Sprintf("both report Authentication=%v but authentication ran=%v", r.CNeg.Authentication, authRan), class
	}
	if r.CNeg.Encryption != r.SNeg.Encryption {
		return fmt.Sprintf("endpoints disagree on Encryption: client %v server %v", r.CNeg.Encryption, r.SNeg.Encryption), class
	}
	if r.CNeg.Encryption != r.CStream.IsEncrypted() || r.SNeg.Encryption != r.SStream.IsEncrypted() {
		return fmt.Sprintf("reported Encryption (c=%v s=%v) differs from the streams' state (c=%v s=%v)", r.CNeg.Encryption, r.SNeg.Encryption, r.CStream.IsEncrypted(), r.SStream.IsEncrypted()), class
	}
	if e.encMust && !r.CNeg.Encryption {
		return "a side requires encryption but the session is not encrypted", class
	}
	if r.CNeg.SessionId == "" || r.CNeg.SessionId != r.SNeg.SessionId {
		return fmt.Sprintf("session identifiers differ: client %q server %q", r.CNeg.SessionId, r.SNeg.SessionId), class
	}
	// immediate exchange both ways, checked against the wire
	for dir := 0; dir < 2; dir++ {
		S, R, conn := r.CStream, r.SStream, r.CConn
		if dir == 1 {
			S, R, conn = r.SStream, r.CStream, r.SConn
		}
		probe := []byte(fmt.Sprintf("probe-%d-PLAINTEXT-MARKER-%s", dir, r.CNeg.SessionId))
		n0 := len(conn.Written())
		if err := S.SendMessage(kit.Bg, probe); err != nil {
			return "probe send: " + err.Error(), class
		}
		got, err := R.ReceiveCompleteMessage(kit.Bg)
		if err != nil || !bytes.Equal(got, probe) {
			return fmt.Sprintf("probe message direction %d not received intact (err=%v): the ends do not hold the same key", dir, err), class
		}
		wire := bytes.Join(conn.Written()[n0:], nil)
		if r.CNeg.Encryption && bytes.Contains(wire, probe) {
			return "session reported encrypted but the probe travelled in the clear", class
		}
		if !r.CNeg.Encryption && !bytes.Contains(wire, probe) {
			return "session reported unencrypted but the probe is not readable on the wire", class
		}
	}
	if e.authRun {
		class += "+auth"
	}
	if r.CNeg.Encryption {
		class += "+enc"
	}
	return "", class
}

func parseLevels(c *Config) {
	c.CA, c.SA, c.CE, c.SE = strings.IndexByte(levelCh, c.Levels[0]), strings.IndexByte(levelCh, c.Levels[1]), strings.IndexByte(levelCh, c.Levels[2]), strings.IndexByte(levelCh, c.Levels[3])
}

func allConfigs(shapeSel func(int) bool, full bool) []Config {
	var out []Config
	for sh := range shapes {
		if !shapeSel(sh) {
			continue
		}
		for i := 0; i < 256; i++ {
			lv := string([]byte{levelCh[i>>6&3], levelCh[i>>4&3], levelCh[i>>2&3], levelCh[i&3]})
			for cipher := range ciphers {
				for _, cmd := range []bool{true, false} {
					if !full && (cipher != 0 || !cmd) {
						continue
					}
					if cipher >= 3 && !(sh == 0 || sh == 1 || sh == 9) { // the mixed cipher lists go with three method-list shapes
						continue
					}
					c := Config{Levels: lv, Shape: sh, Cipher: cipher, Command: cmd}
					parseLevels(&c)
					out = append(out, c)
				}
			}
		}
	}
	return out
}

// TestC10PerCommand: the level matrix again with the server's policy delivered per command.
func TestC10PerCommand(t *testing.T) {
	var mu sync.Mutex
	bad := 0
	sem := make(chan struct{}, 12)
	var wg sync.WaitGroup
	n := 0
	for i, c := range allConfigs(func(s int) bool { return s == 0 || s == 1 }, false) {
		if i%kit.NShards() != kit.Shard() {
			continue
		}
		n++
		wg.Add(1)
		sem <- struct{}{}
		go func(c Config) {
			defer wg.Done()
			defer func() { <-sem }()
			v, class := runPerCommand(c)
			b, _ := json.Marshal(c)
			ev.Case(class, "percmd"+string(b))
			if v != "" {
				mu.Lock()
				if bad < 6 {
					kit.Violation("C10", v, map[string]any{"per_command": true, "config": c})
					t.Errorf("C10 violated: %s (config %+v)", v, c)
				}
				bad++
				mu.Unlock()
			}
		}(c)
	}
	wg.Wait()
	ev.Exhaustive("all 256 level cells x 2 list shapes with the server policy handed out per command as one shared object, 3 connections in a row each")
}

// TestC10Sequences: ONE client configuration object (its method list included) used for several
// handshakes in a row against servers that each offer a single method. Every handshake is judged by the
// table on its own, and the caller's configuration must come back as it was handed in.
func TestC10Sequences(t *testing.T) {
	C, F, T := security.AuthClaimToBe, security.AuthFS, security.AuthToken
	lists := [][]security.AuthMethod{{F, C}, {C, F}, {T, F, C}, {security.AuthMethod("GSI"), F, C}, {C, T}, {F, T, C}}
	servers := []security.AuthMethod{C, F, T}
	bad := 0
	n := 0
	for li, list := range lists {
		if li%kit.NShards() != kit.Shard() {
			continue
		}
		for order := 0; order < 6; order++ {
			perm := [][]int{{0, 1, 2}, {0, 2, 1}, {1, 0, 2}, {1, 2, 0}, {2, 0, 1}, {2, 1, 0}}[order]
			for _, lv := range []string{"PROO", "RROO", "OROR", "PPPP"} {
				orig := append([]security.AuthMethod(nil), list...)
				cfgList := append([]security.AuthMethod(nil), list...)
				c := Config{Levels: lv, Command: true}
				parseLevels(&c)
				cc := kit.BaseConfig(levels[c.CA], levels[c.CE], cfgList...)
				cc.AuthMethods = cfgList
				tokenEnv.Apply(cc, nil)
				for step, si := range perm {
					sm := servers[si]
					sc := kit.BaseConfig(levels[c.SA], levels[c.SE], sm)
					tokenEnv.Apply(nil, sc)
					cc.SessionCache = security.NewSessionCache() // every connection is a full handshake
					usable := false
					for _, m := range orig {
						if m == sm {
							usable = true
						}
					}
					sh := shape{name: "sequence", c: orig, s: []security.AuthMethod{sm}, usable: usable}
					v, class := judgeHandshakeShape(c, sh, kit.Handshake(cc, sc, 10*time.Second))
					n++
					ev.Case("sequence/"+class, fmt.Sprintf("seq:%d/%d/%s/%d", li, order, lv, step))
					if v == "" && fmt.Sprint(cc.AuthMethods) != fmt.Sprint(orig) {
						v = fmt.Sprintf("the handshake rewrote the caller's method list: %v became %v", orig, cc.AuthMethods)
					}
					if v != "" {
						if bad < 4 {
							bad++
							msg := fmt.Sprintf("handshake #%d of one client configuration (list %v, server offers %v, levels %s): %s", step+1, orig, sm, lv, v)
							kit.Violation("C10", msg, map[string]any{"sequence": []int{li, order}, "levels": lv})
							t.Errorf("C10 violated: %s", msg)
						}
						break
					}
				}
			}
		}
	}
	ev.Exhaustive("6 client method lists x all 6 orders of three single-method servers x 4 level cells, one client configuration object per sequence")
}

func runAll(t *testing.T, cfgs []Config) {
	var mu sync.Mutex
	bad := 0
	sem := make(chan struct{}, 12)
	var wg sync.WaitGroup
	for _, c := range cfgs {
		wg.Add(1)
		sem <- struct{}{}
		go func(c Config) {
			defer wg.Done()
			defer func() { <-sem }()
			v, class := runConfig(c)
			k := ""
			if !(c.Levels == "OOOO" && c.Shape == 0) {
				b, _ := json.Marshal(c)
				k = string(b)
			}
			ev.Case(class, k)
			ev.Class("shape:" + shapes[c.Shape].name)
			if v != "" {
				mu.Lock()
				if bad < 8 {
					kit.Violation("C10", v+" ["+shapes[c.Shape].name+"]", c)
					t.Errorf("C10 violated: %s (config %+v)", v, c)
				}
				bad++
				mu.Unlock()
			}
		}(c)
	}
	wg.Wait()
}

// TestC10Matrix: the full 4^4 level matrix for selected list shapes, plus a
// seeded sample (quick) or all (thorough) of the remaining product.
func TestC10Matrix(t *testing.T) {
	full := true // the whole product takes seconds; the quick tier runs it too
	var cfgs []Config
	if full {
		cfgs = allConfigs(func(int) bool { return true }, true)
	} else {
		cfgs = allConfigs(func(s int) bool { return s == 0 || s == 1 || s == 5 }, false)
		rest := allConfigs(func(s int) bool { return true }, true)
		rng := rand.New(rand.NewSource(kit.Seed()))
		rng.Shuffle(len(rest), func(i, j int) { rest[i], rest[j] = rest[j], rest[i] })
		cfgs = append(cfgs, rest[:1400]...)
	}
	// shard
	var mine []Config
	for i, c := range cfgs {
		if i%kit.NShards() == kit.Shard() {
			mine = append(mine, c)
		}
	}
	for i := 0; i < 3 && i < len(mine); i++ {
		ev.Sample("config", mine[i*7%len(mine)])
	}
	runAll(t, mine)
	if full {
		ev.Exhaustive(fmt.Sprintf("the whole product: 256 level cells x %d list shapes x 3 cipher lists x {command, auth-only}, and 256 cells x 3 list shapes x 5 mixed cipher lists (AES and legacy names in differing orders) x {command, auth-only}", len(shapes)))
	} else {
		ev.Exhaustive("all 256 level cells for the list shapes identical-claimtobe, opposite-orders, only-unimplemented-common (AES both, command present)")
	}
}

func TestC10Replay(t *testing.T) {
	var w struct {
		Config
		PerCommand bool    `json:"per_command"`
		Inner      *Config `json:"config"`
		Sequence   []int   `json:"sequence"`
	}
	ok, err := kit.ReplayCase(&w)
	if !ok {
		t.Skip("no VERIF_REPLAY")
	}
	if err != nil {
		t.Fatal(err)
	}
	if len(w.Sequence) > 0 { // a sequence case: the sweep is deterministic and short, run all of it
		TestC10Sequences(t)
		return
	}
	c := w.Config
	if w.PerCommand && w.Inner != nil {
		c = *w.Inner
	}
	parseLevels(&c)
	run := runConfig
	if w.PerCommand {
		run = runPerCommand
	}
	if v, _ := run(c); v != "" {
		t.Fatalf("C10 violated: %s", v)
	}
}

func init() {
	tokenEnv = kit.NewTokenEnv()
	initShapes()
}
