package c10

import (
	"context"
	"fmt"
	"sync"
	"testing"
	"time"

	"github.com/bbockelm/cedar/security"
	"github.com/bbockelm/cedar/stream"

	"verifharness/kit"
)

// mgrPair runs one handshake through the two given managers (possibly the same object) over an in-memory
// connection and then exchanges a message each way. startServerFirst: the server side is given time to reach its
// first read before the client starts (so two such pairs started back to back overlap in a known order).
func mgrPair(cm, sm *security.SecurityManager, label string, serverReady, clientGo chan struct{}) string {
	pa, pb := kit.NextPorts()
	cc, sc := kit.NewBufPipe(pa, pb)
	defer cc.Close()
	defer sc.Close()
	ctx, cancel := context.WithTimeout(context.Background(), 20*time.Second)
	defer cancel()
	cst, sst := stream.NewStream(cc), stream.NewStream(sc)
	var serr error
	var wg sync.WaitGroup
	wg.Add(1)
	go func() {
		defer wg.Done()
		if serverReady != nil {
			close(serverReady)
		}
		serr = sm.ServerHandshake(ctx, sst)
		if serr != nil {
			_ = sc.Close()
		}
	}()
	if clientGo != nil {
		<-clientGo
	}
	cerr := cm.ClientHandshake(ctx, cst)
	if cerr != nil {
		_ = cc.Close()
	}
	wg.Wait()
	if cerr != nil || serr != nil {
		return fmt.Sprintf("%s: two honest endpoints with the managers' default (compatible) policies did not complete the handshake: client %v / server %v", label, cerr, serr)
	}
	if cst.IsEncrypted() != sst.IsEncrypted() {
		return fmt.Sprintf("%s: the ends disagree on encryption (client %v server %v)", label, cst.IsEncrypted(), sst.IsEncrypted())
	}
	errc := make(chan error, 1)
	go func() {
		m, err := sst.ReceiveCompleteMessage(ctx)
		if err == nil && string(m) != "probe-c2s" {
			err = fmt.Errorf("server read %q", m)
		}
		if err == nil {
			err = sst.SendMessage(ctx, []byte("probe-s2c"))
		}
		errc <- err
	}()
	if err := cst.SendMessage(ctx, []byte("probe-c2s")); err != nil {
		return label + ": client cannot send after the handshake: " + err.Error()
	}
	m, err := cst.ReceiveCompleteMessage(ctx)
	if e2 := <-errc; e2 != nil {
		return label + ": after the handshake the ends cannot exchange messages (do they hold the same key?): " + e2.Error()
	}
	if err != nil || string(m) != "probe-s2c" {
		return fmt.Sprintf("%s: client read %q, %v", label, m, err)
	}
	return ""
}

// TestC10Manager: the same negotiation through SecurityManager, the convenience wrapper: one manager object
// serving both ends of a connection in one process, and one server-side manager with a second connection
// arriving while the first handshake is still waiting for its client.
func TestC10Manager(t *testing.T) {
	rounds := kit.Scale(30, 200)
	bad := 0
	fail := func(v string) {
		if v != "" && bad < 4 {
			bad++
			kit.Violation("C10", v, map[string]any{"manager": true})
			t.Errorf("C10 violated: %s", v)
		}
	}
	for r := 0; r < rounds; r++ {
		m := security.NewSecurityManager()
		fail(mgrPair(m, m, "one manager for both ends", nil, nil))
		ev.Case("manager/both-ends", fmt.Sprintf("mgr-both:%d", r))
		// two connections to one server-side manager: the first server handshake is parked in its first read
		// when the second connection's handshake starts and completes; then the first client proceeds
		sm, cm1, cm2 := security.NewSecurityManager(), security.NewSecurityManager(), security.NewSecurityManager()
		ready1, go1 := make(chan struct{}), make(chan struct{})
		res1 := make(chan string, 1)
		go func() { res1 <- mgrPair(cm1, sm, "first of two overlapping connections to one server-side manager", ready1, go1) }()
		<-ready1
		time.Sleep(2 * time.Millisecond)
		v2 := mgrPair(cm2, sm, "second of two overlapping connections to one server-side manager", nil, nil)
		close(go1)
		fail(<-res1)
		fail(v2)
		ev.Case("manager/overlapping", fmt.Sprintf("mgr-overlap:%d", r))
	}
	ev.Exhaustive(fmt.Sprintf("%d rounds: one SecurityManager serving both ends; one server-side manager with two overlapping connections", rounds))
}
