// Package c16 decides property C16: a minted claim id and its import yield one
// shared, working session; the public form hides the secret; the embedded
// policy text survives a render/parse round trip.
package c16

import (
	"regexp"
	"bytes"
	"crypto/sha256"
	"encoding/json"
	"fmt"
	"io"
	"strings"
	"testing"
	"time"

	"github.com/PelicanPlatform/classad/classad"
	"github.com/bbockelm/cedar/security"
	"golang.org/x/crypto/hkdf"
	"pgregory.net/rapid"

	"verifharness/kit"
)

var numericVersion = regexp.MustCompile(`[0-9]+\.[0-9]+\.[0-9]+`)

func TestMain(m *testing.M) { kit.Main(m) }

var ev = kit.Ev("C16")

func init() {
	ev.Rule("minting options generated field by field: sinful strings from a grammar (IPv4/IPv6/hostname, port, 0-4 key=value parameters incl. sock=, addrs=, values containing # [ ] ; =), birthdate, sequence number, " +
		"encryption/integrity toggles (nil/true/false), cipher lists (\"\", AES, AESGCM, AES,BLOWFISH, 'AES, 3DES,BLOWFISH', non-AES first), command lists, lifetimes 0..10y, versions in long and short form, peer address / tag set or empty; " +
		"the minted id is imported into a second cache (ImportClaimSession, ImportFileTransferSession), also with one character of the secret changed, deleted or appended; " +
		"oracle: both cache entries agree (id, key bytes = independent HKDF of the secret, policy attributes, expiry); a real client naming the session explicitly resumes it against a real server backed by the other cache, in both directions, " +
		"with the recorded identities and a probe message each way; with a corrupted secret no probe is accepted in either direction; the public form contains no 8-character substring of the secret; " +
		"Export/Import of session info round-trips; non-trivial = sinful containing # or brackets, a multi-cipher list, or a lifetime > 0; distinct by option tuple")
}

type Opts struct {
	Sinful    string `json:"sinful"`
	Birth     int64  `json:"birth"`
	Seq       int    `json:"seq"`
	Enc       int    `json:"enc"` // 0 nil, 1 true, 2 false
	Integ     int    `json:"integ"`
	Ciphers   string `json:"ciphers"`
	Valid     []int  `json:"valid"`
	Extra     []int  `json:"extra"`
	LifeSecs  int64  `json:"life"`
	Version   string `json:"version"`
	PeerAddr  string `json:"peer_addr"`
	Tag       string `json:"tag"`
	PeerFQU   string `json:"peer_fqu"`
	ImpFQU    string `json:"imp_fqu"`
	ImpAddr   string `json:"imp_addr"`
}

func boolp(i int) *bool {
	switch i {
	case 1:
		t := true
		return &t
	case 2:
		f := false
		return &f
	}
	return nil
}

func (o Opts) mint() security.MintClaimOptions {
	return security.MintClaimOptions{Sinful: o.Sinful, Birthdate: o.Birth, SequenceNum: o.Seq, PeerFQU: o.PeerFQU, PeerAddr: o.PeerAddr,
		Encryption: boolp(o.Enc), Integrity: boolp(o.Integ), CryptoMethods: o.Ciphers, RemoteVersion: o.Version,
		Lifetime: time.Duration(o.LifeSecs) * time.Second, ExtraValidCommands: o.Extra, ValidCommands: o.Valid, Tag: o.Tag}
}

func refKey(secret string) []byte {
	k := make([]byte, 32)
	_, _ = io.ReadFull(hkdf.New(sha256.New, []byte(secret), []byte("htcondor"), []byte("keygen")), k)
	return k
}

func attr(ad *classad.ClassAd, n string) string {
	if ad == nil {
		return "<nil>"
	}
	if s, ok := ad.EvaluateAttrString(n); ok {
		return "s:" + s
	}
	if i, ok := ad.EvaluateAttrInt(n); ok {
		return fmt.Sprintf("i:%d", i)
	}
	if b, ok := ad.EvaluateAttrBool(n); ok {
		return fmt.Sprintf("b:%v", b)
	}
	return "<absent>"
}

func isHex(s string) bool {
	for _, c := range s {
		if !(c >= '0' && c <= '9' || c >= 'a' && c <= 'f') {
			return false
		}
	}
	return true
}

// shares8 reports whether a and secret share an 8-character substring.
func shares8(a, secret string) bool {
	for i := 0; i+8 <= len(secret); i++ {
		if strings.Contains(a, secret[i:i+8]) {
			return true
		}
	}
	return false
}

type pureRes struct {
	viol       string
	refused    bool
	minterC    *security.SessionCache
	importerC  *security.SessionCache
	minted     *security.MintedClaim
	secret     string
	sid        string
}

func runPure(o Opts) pureRes {
	var r pureRes
	r.minterC, r.importerC = security.NewSessionCache(), security.NewSessionCache()
	m, err := security.MintClaimSession(r.minterC, o.mint())
	first := strings.TrimSpace(strings.Split(o.Ciphers, ",")[0])
	mustRefuse := o.Sinful == "" || (o.Ciphers != "" && first != "AES" && first != "AESGCM")
	if err != nil {
		if !mustRefuse {
			r.viol = "minting refused valid options: " + err.Error()
		}
		r.refused = true
		return r
	}
	if mustRefuse {
		r.viol = "minting accepted options it must refuse (empty sinful or non-AES first cipher)"
		return r
	}
	r.minted = m
	full := m.ClaimID()
	wantSid := fmt.Sprintf("%s#%d#%d", o.Sinful, o.Birth, o.Seq)
	if m.SessionID() != wantSid {
		r.viol = fmt.Sprintf("session id %q, expected %q", m.SessionID(), wantSid)
		return r
	}
	r.sid = wantSid
	// reference parse of the full id: sid '#' '[' info ']' secret
	if !strings.HasPrefix(full, wantSid+"#[") {
		r.viol = "claim id does not start with the session id followed by #["
		return r
	}
	rb := strings.LastIndex(full, "]")
	secret := full[rb+1:]
	info := full[len(wantSid)+1 : rb+1]
	if len(secret) != 64 || !isHex(secret) {
		r.viol = fmt.Sprintf("secret is not 64 lowercase hex characters: %q", secret)
		return r
	}
	r.secret = secret
	// (5) strict parser returns exactly the three parts
	cid := security.ParseClaimIDStrict(full)
	if cid.SecSessionID() != wantSid || cid.SecSessionInfo() != info || cid.SecSessionKey() != secret {
		r.viol = fmt.Sprintf("ParseClaimIDStrict returned (%q, %q, secret ok: %v), expected (%q, %q, <secret>)", cid.SecSessionID(), cid.SecSessionInfo(), cid.SecSessionKey() == secret, wantSid, info)
		return r
	}
	// (4) public forms
	for name, pub := range map[string]string{"minted.PublicClaimID": m.PublicClaimID(), "ParseClaimIDStrict.PublicClaimID": cid.PublicClaimID(),
		"ParseClaimID.PublicClaimID": security.ParseClaimID(full).PublicClaimID()} {
		if shares8(pub, secret) {
			r.viol = fmt.Sprintf("%s = %q contains part of the secret", name, pub)
			return r
		}
	}
	// (5) info round trips
	pol, err := security.ImportSecSessionInfo(info)
	if err != nil {
		r.viol = "ImportSecSessionInfo rejected minted info: " + err.Error()
		return r
	}
	back, err := security.ExportSecSessionInfo(pol)
	if err != nil || back != info {
		r.viol = fmt.Sprintf("Export(Import(info)) = %q (err %v), info = %q", back, err, info)
		return r
	}
	// (1) agreement of the two cache entries
	impSid, err := security.ImportClaimSession(r.importerC, full, security.ClaimSessionOptions{PeerAddr: o.ImpAddr, PeerFQU: o.ImpFQU, Tag: o.Tag, Duration: time.Duration(o.LifeSecs) * time.Second})
	if err != nil {
		r.viol = "ImportClaimSession rejected a minted claim id: " + err.Error()
		return r
	}
	if impSid != wantSid {
		r.viol = fmt.Sprintf("importer's session id %q differs from the minter's %q", impSid, wantSid)
		return r
	}
	me, ok1 := r.minterC.Lookup(wantSid)
	ie, ok2 := r.importerC.Lookup(wantSid)
	if !ok1 || !ok2 {
		r.viol = fmt.Sprintf("session missing from a cache after mint/import (minter %v importer %v)", ok1, ok2)
		return r
	}
	want := refKey(secret)
	if me.KeyInfo() == nil || ie.KeyInfo() == nil || !bytes.Equal(me.KeyInfo().Data, want) || !bytes.Equal(ie.KeyInfo().Data, want) {
		r.viol = "derived keys differ from the reference HKDF of the secret (or from each other)"
		return r
	}
	for _, a := range []string{"Encryption", "Integrity", "CryptoMethods", "ValidCommands", "SessionExpires"} {
		if attr(me.Policy(), a) != attr(ie.Policy(), a) {
			r.viol = fmt.Sprintf("policy attribute %s differs: minter %s importer %s", a, attr(me.Policy(), a), attr(ie.Policy(), a))
			return r
		}
	}
	// the version the identifier carries is the peer's NUMERIC version (documented: ShortVersion, e.g. "25.4.0"),
	// whichever form - bare or "$CondorVersion: 25.4.0 <date> BuildID: ... PackageID: 25.4.0-0.847437 ... $" - the minter was given
	if o.Version != "" {
		wantShort := numericVersion.FindString(o.Version)
		if i := strings.Index(info, `ShortVersion="`); i < 0 {
			r.viol = fmt.Sprintf("the identifier's policy text carries no ShortVersion although the minter was given version %q (info %q)", o.Version, info)
			return r
		} else if gotShort := info[i+len(`ShortVersion="`):]; !strings.HasPrefix(gotShort, wantShort+`"`) {
			r.viol = fmt.Sprintf("the identifier's policy text carries ShortVersion=%q..., the numeric version of %q is %q", strings.SplitN(gotShort, `"`, 2)[0], o.Version, wantShort)
			return r
		}
	}
	wantEnc, wantInt := "s:YES", "s:YES"
	if o.Enc == 2 {
		wantEnc = "s:NO"
	}
	if o.Integ == 2 {
		wantInt = "s:NO"
	}
	if attr(me.Policy(), "Encryption") != wantEnc || attr(me.Policy(), "Integrity") != wantInt {
		r.viol = fmt.Sprintf("policy toggles not as minted: Encryption %s Integrity %s", attr(me.Policy(), "Encryption"), attr(me.Policy(), "Integrity"))
		return r
	}
	if len(o.Valid) > 0 {
		var parts []string
		for _, c := range o.Valid {
			parts = append(parts, fmt.Sprint(c))
		}
		if attr(ie.Policy(), "ValidCommands") != "s:"+strings.Join(parts, ",") {
			r.viol = fmt.Sprintf("ValidCommands at the importer %s, minted %v", attr(ie.Policy(), "ValidCommands"), o.Valid)
			return r
		}
	}
	if !me.Expiration().Equal(ie.Expiration()) {
		r.viol = fmt.Sprintf("expiry differs: minter %v importer %v", me.Expiration(), ie.Expiration())
		return r
	}
	if o.LifeSecs > 0 {
		// the expiry is the absolute time embedded in the id
		var embedded int64
		if i := strings.Index(info, "SessionExpires="); i >= 0 {
			fmt.Sscanf(info[i+len("SessionExpires="):], "%d", &embedded)
		}
		if me.Expiration().Unix() != embedded || ie.Expiration().Unix() != embedded {
			r.viol = fmt.Sprintf("expiry: minter %d importer %d, the id embeds SessionExpires=%d", me.Expiration().Unix(), ie.Expiration().Unix(), embedded)
			return r
		}
		d := time.Until(me.Expiration())
		if d < time.Duration(o.LifeSecs-5)*time.Second || d > time.Duration(o.LifeSecs+5)*time.Second {
			r.viol = fmt.Sprintf("expiry %v is not now + %d s", me.Expiration(), o.LifeSecs)
			return r
		}
	} else if !me.Expiration().IsZero() {
		r.viol = "a claim minted without lifetime has an expiry"
		return r
	}
	// command routes on the minter side
	if o.PeerAddr != "" {
		for _, c := range append(append([]int{}, o.Valid...), o.Extra...) {
			if e, ok := r.minterC.LookupByCommand(o.Tag, o.PeerAddr, fmt.Sprint(c)); !ok || e.ID() != wantSid {
				r.viol = fmt.Sprintf("minter: command %d to %s (tag %q) does not route to the claim session", c, o.PeerAddr, o.Tag)
				return r
			}
		}
	}
	return r
}

// connect resumes the session from clientCache's side against a server backed by serverCache.
func connect(sid string, clientCache, serverCache *security.SessionCache) (cUser, sUser string, cOK, sOK, cProbe, sProbe bool, detail string) {
	ccfg := kit.BaseConfig(security.SecurityOptional, security.SecurityOptional, security.AuthClaimToBe)
	ccfg.SessionCache, ccfg.SessionID, ccfg.PeerName = clientCache, sid, "<claim-peer>"
	scfg := kit.BaseConfig(security.SecurityOptional, security.SecurityOptional, security.AuthClaimToBe)
	scfg.SessionCache = serverCache
	r := kit.Handshake(ccfg, scfg, 3*time.Second)
	cOK, sOK = r.CErr == nil, r.SErr == nil
	detail = fmt.Sprintf("client err %v, server err %v", r.CErr, r.SErr)
	if !cOK || !sOK {
		return
	}
	if !r.CAuth.WasSessionResumed() || !r.SNeg.SessionResumed || len(r.CConn.Written()) != 1 {
		detail = fmt.Sprintf("not a pure resumption: client resumed=%v server resumed=%v client messages=%d", r.CAuth.WasSessionResumed(), r.SNeg.SessionResumed, len(r.CConn.Written()))
		cOK = false
		return
	}
	cUser, sUser = r.CNeg.User, r.SNeg.User
	done := make(chan bool, 1)
	go func() {
		m, err := r.SStream.ReceiveCompleteMessage(kit.Bg)
		done <- err == nil && string(m) == "probe-from-client"
	}()
	_ = r.CStream.SendMessage(kit.Bg, []byte("probe-from-client"))
	select {
	case sProbe = <-done:
	case <-time.After(time.Second):
	}
	go func() {
		m, err := r.CStream.ReceiveCompleteMessage(kit.Bg)
		done <- err == nil && string(m) == "probe-from-server"
	}()
	_ = r.SStream.SendMessage(kit.Bg, []byte("probe-from-server"))
	select {
	case cProbe = <-done:
	case <-time.After(time.Second):
	}
	_ = r.CConn.Close()
	_ = r.SConn.Close()
	return
}

func runConnect(o Opts) string {
	r := runPure(o)
	if r.viol != "" || r.refused {
		return r.viol
	}
	minterPeer, importerPeer := o.PeerFQU, o.ImpFQU
	if minterPeer == "" {
		minterPeer = security.SubmitSideMatchSessionFQU
	}
	if importerPeer == "" {
		importerPeer = security.ExecuteSideMatchSessionFQU
	}
	// importer -> minter
	cu, su, cOK, sOK, cP, sP, det := connect(r.sid, r.importerC, r.minterC)
	if !cOK || !sOK || !cP || !sP {
		return fmt.Sprintf("importer -> minter: the shared session does not work (%s; probes client<-%v server<-%v)", det, cP, sP)
	}
	if su != minterPeer || cu != importerPeer {
		return fmt.Sprintf("importer -> minter: identities: server sees %q (minted peer %q), client sees %q (imported peer %q)", su, minterPeer, cu, importerPeer)
	}
	// minter -> importer
	cu, su, cOK, sOK, cP, sP, det = connect(r.sid, r.minterC, r.importerC)
	if !cOK || !sOK || !cP || !sP {
		return fmt.Sprintf("minter -> importer: the shared session does not work (%s; probes client<-%v server<-%v)", det, cP, sP)
	}
	if su != importerPeer || cu != minterPeer {
		return fmt.Sprintf("minter -> importer: identities: server sees %q, client sees %q", su, cu)
	}
	// (3) wrong secret
	full := r.minted.ClaimID()
	base := full[:len(full)-64]
	sec := r.secret
	flip := func(c byte) byte {
		if c == 'a' {
			return 'b'
		}
		return 'a'
	}
	// a cache that first imported a corrupted copy and then the GENUINE identifier (the application got a corrected
	// copy): what was imported last is what it holds, so the shared session works
	for _, name := range []string{"first-char", "last-char"} {
		bad := base + string(flip(sec[0])) + sec[1:]
		if name == "last-char" {
			bad = base + sec[:63] + string(flip(sec[63]))
		}
		wc := security.NewSessionCache()
		if _, err := security.ImportClaimSession(wc, bad, security.ClaimSessionOptions{}); err != nil {
			continue
		}
		if sid2, err := security.ImportClaimSession(wc, full, security.ClaimSessionOptions{}); err != nil || sid2 != r.sid {
			return fmt.Sprintf("importing the genuine identifier into a cache that had imported a corrupted copy (%s) failed: %v", name, err)
		}
		if e, ok := wc.Lookup(r.sid); !ok || e.KeyInfo() == nil || !bytes.Equal(e.KeyInfo().Data, refKey(r.secret)) {
			return fmt.Sprintf("after importing the genuine identifier over a corrupted copy (%s) the cache does not hold the key derived from the genuine secret", name)
		}
		_, _, cOK, sOK, cP, sP, det := connect(r.sid, wc, r.minterC)
		if !cOK || !sOK || !cP || !sP {
			return fmt.Sprintf("genuine identifier imported over a corrupted copy (%s): importer -> minter does not work (%s)", name, det)
		}
	}
	for name, bad := range map[string]string{
		"first-char": base + string(flip(sec[0])) + sec[1:], "last-char": base + sec[:63] + string(flip(sec[63])),
		"middle-char": base + sec[:31] + string(flip(sec[31])) + sec[32:], "deleted": base + sec[:63], "appended": base + sec + "0"} {
		wc := security.NewSessionCache()
		if _, err := security.ImportClaimSession(wc, bad, security.ClaimSessionOptions{}); err != nil {
			continue // refusing outright is fine
		}
		_, _, _, _, cP, sP, _ := connect(r.sid, wc, r.minterC)
		if cP || sP {
			return fmt.Sprintf("an importer holding a different secret (%s) exchanged a probe with the minter (client accepted %v, server accepted %v)", name, cP, sP)
		}
		_, _, _, _, cP, sP, _ = connect(r.sid, r.minterC, wc)
		if cP || sP {
			return fmt.Sprintf("the minter exchanged a probe with an importer holding a different secret (%s)", name)
		}
	}
	// file-transfer session derived from the same claim
	fc := security.NewSessionCache()
	fsid, err := security.ImportFileTransferSession(fc, full, security.ClaimSessionOptions{})
	if err != nil {
		return "ImportFileTransferSession rejected a minted claim id: " + err.Error()
	}
	if fe, ok := fc.Lookup(fsid); !ok || fe.KeyInfo() == nil || !bytes.Equal(fe.KeyInfo().Data, refKey(r.secret)) {
		return "file-transfer session key is not the reference HKDF of the secret"
	}
	if shares8(fsid, r.secret) {
		return "file-transfer session id contains part of the secret"
	}
	return ""
}

func genSinful(t *rapid.T) string {
	host := rapid.SampledFrom([]string{"127.0.0.1", "10.1.2.3", "[::1]", "[2620:0:1::5]", "startd.example.org", "h"}).Draw(t, "host")
	port := rapid.SampledFrom([]string{"9618", "1", "65535", "0"}).Draw(t, "port")
	var params []string
	n := rapid.IntRange(0, 4).Draw(t, "nparams")
	for i := 0; i < n; i++ {
		k := rapid.SampledFrom([]string{"sock", "addrs", "alias", "CCBID", "PrivNet", "noUDP"}).Draw(t, "pkey")
		v := rapid.SampledFrom([]string{"startd_123_abc", "127.0.0.1-9618+[--1]-9618", "a#b", "x[1]", "p;q", "k=v", "", "10.0.0.1:9618%3faddrs%3d10.0.0.1-9618#7", "]]", "[[", "v#[w]", "#[]#"}).Draw(t, "pval")
		params = append(params, k+"="+v)
	}
	s := host + ":" + port
	if len(params) > 0 {
		s += "?" + strings.Join(params, "&")
	}
	if rapid.IntRange(0, 5).Draw(t, "brackets") > 0 {
		s = "<" + s + ">"
	}
	return s
}

func genOpts(t *rapid.T) Opts {
	o := Opts{Sinful: genSinful(t), Birth: rapid.Int64Range(0, 2000000000).Draw(t, "birth"), Seq: rapid.IntRange(0, 100000).Draw(t, "seq"),
		Enc: rapid.IntRange(0, 2).Draw(t, "enc"), Integ: rapid.IntRange(0, 2).Draw(t, "integ"),
		Ciphers: rapid.SampledFrom([]string{"", "AES", "AESGCM", "AES,BLOWFISH", "AES, 3DES,BLOWFISH", "AESGCM,AES", "BLOWFISH,AES", "3DES"}).Draw(t, "ciphers"),
		LifeSecs: rapid.SampledFrom([]int64{0, 0, 45, 60, 3600, 86400, 315360000}).Draw(t, "life"),
		Version: rapid.SampledFrom([]string{"", "$CondorVersion: 25.4.0 2025-10-31 BuildID: 847437 PackageID: 25.4.0-0.847437 GitSHA: a6507f91 RC $", "24.0.1", "9.0.17",
			"$CondorVersion: 23.10.2 2024-09-01 $", "$CondorVersion: 9.12.0 Oct 31 2022 BuildID: 612345 PackageID: 9.12.0-1.el8 $"}).Draw(t, "version"),
		PeerAddr: rapid.SampledFrom([]string{"", "<10.0.0.9:9618>", "schedd.example.org:9618"}).Draw(t, "peeraddr"),
		Tag:      rapid.SampledFrom([]string{"", "", "tagA"}).Draw(t, "tag"),
		PeerFQU:  rapid.SampledFrom([]string{"", "schedd@pool"}).Draw(t, "peerfqu"),
		ImpFQU:   rapid.SampledFrom([]string{"", "startd@pool"}).Draw(t, "impfqu"),
		ImpAddr:  rapid.SampledFrom([]string{"", "<10.0.0.7:9618>"}).Draw(t, "impaddr")}
	if rapid.IntRange(0, 20).Draw(t, "emptysinful") == 0 {
		o.Sinful = ""
	}
	nv := rapid.IntRange(0, 4).Draw(t, "nvalid")
	for i := 0; i < nv; i++ {
		o.Valid = append(o.Valid, rapid.SampledFrom([]int{404, 442, 443, 444, 60008, 0, 1}).Draw(t, "vcmd"))
	}
	ne := rapid.IntRange(0, 2).Draw(t, "nextra")
	for i := 0; i < ne; i++ {
		o.Extra = append(o.Extra, rapid.SampledFrom([]int{510, 511}).Draw(t, "ecmd"))
	}
	return o
}

func record(o Opts, class string) {
	k := ""
	if strings.ContainsAny(o.Sinful, "#[]") || strings.Contains(o.Ciphers, ",") || o.LifeSecs > 0 {
		b, _ := json.Marshal(o)
		k = string(b)
	}
	ev.Case(class, k)
}

func TestC16Pure(t *testing.T) {
	rapid.Check(t, func(t *rapid.T) {
		o := genOpts(t)
		r := runPure(o)
		class := "pure"
		if r.refused {
			class = "pure/refused"
		}
		record(o, class)
		ev.Sample("options", o)
		if r.viol != "" {
			js, _ := json.Marshal(o)
			t.Fatalf("C16 violated: %s\noptions: %s", r.viol, js)
		}
	})
}

func TestC16Connect(t *testing.T) {
	rapid.Check(t, func(t *rapid.T) {
		o := genOpts(t)
		v := runConnect(o)
		record(o, "connect")
		if v != "" {
			js, _ := json.Marshal(o)
			t.Fatalf("C16 violated: %s\noptions: %s", v, js)
		}
	})
}

// TestC16InfoRoundTrip: ImportSecSessionInfo(ExportSecSessionInfo(p)) reproduces the policy attributes.
func TestC16InfoRoundTrip(t *testing.T) {
	rapid.Check(t, func(t *rapid.T) {
		p := classad.New()
		want := map[string]string{}
		if v := rapid.SampledFrom([]string{"", "YES", "NO"}).Draw(t, "enc"); v != "" {
			_ = p.Set("Encryption", v)
			want["Encryption"] = "s:" + v
		}
		if v := rapid.SampledFrom([]string{"", "YES", "NO"}).Draw(t, "integ"); v != "" {
			_ = p.Set("Integrity", v)
			want["Integrity"] = "s:" + v
		}
		if v := rapid.SampledFrom([]string{"", "AES", "AESGCM", "AES,BLOWFISH", "AES,3DES,BLOWFISH"}).Draw(t, "cm"); v != "" {
			_ = p.Set("CryptoMethods", v)
			want["CryptoMethods"] = "s:" + v
		}
		if v := rapid.SampledFrom([]string{"", "404", "404,442,443", "0"}).Draw(t, "vc"); v != "" {
			_ = p.Set("ValidCommands", v)
			want["ValidCommands"] = "s:" + v
		}
		switch rapid.IntRange(0, 2).Draw(t, "exptype") {
		case 1:
			n := rapid.Int64Range(1, 4000000000).Draw(t, "expi")
			_ = p.Set("SessionExpires", n)
			want["SessionExpires"] = fmt.Sprintf("s:%d", n)
		case 2:
			n := rapid.Int64Range(1, 4000000000).Draw(t, "exps")
			_ = p.Set("SessionExpires", fmt.Sprint(n))
			want["SessionExpires"] = fmt.Sprintf("s:%d", n)
		}
		info, err := security.ExportSecSessionInfo(p)
		if err != nil {
			t.Fatalf("C16 violated: ExportSecSessionInfo failed on a plain policy: %v", err)
		}
		back, err := security.ImportSecSessionInfo(info)
		if err != nil {
			t.Fatalf("C16 violated: ImportSecSessionInfo rejected exported info %q: %v", info, err)
		}
		for _, a := range []string{"Encryption", "Integrity", "CryptoMethods", "ValidCommands", "SessionExpires"} {
			w, ok := want[a]
			if !ok {
				w = "<absent>"
			}
			if g := attr(back, a); g != w {
				t.Fatalf("C16 violated: attribute %s after Export/Import is %s, expected %s (info %q)", a, g, w, info)
			}
		}
		again, err := security.ExportSecSessionInfo(back)
		if err != nil || again != info {
			t.Fatalf("C16 violated: Export(Import(s)) = %q (err %v), s = %q", again, err, info)
		}
		ev.Case("info-round-trip", "info/"+info)
	})
}

func TestC16Replay(t *testing.T) {
	var o Opts
	ok, err := kit.ReplayCase(&o)
	if !ok {
		t.Skip("no VERIF_REPLAY")
	}
	if err != nil {
		t.Fatal(err)
	}
	if v := runConnect(o); v != "" {
		t.Fatalf("C16 violated: %s", v)
	}
}
