package c13

import (
	"testing"
	"time"

	"github.com/bbockelm/cedar/security"

	"verifharness/kit"
)

// honestStreams captures both directions of honest handshakes for use as fuzz
// seeds (valid transcripts get the fuzzer past input validation at once).
func honestStreams() (c2s, s2c [][]byte) {
	for _, m := range [][]security.AuthMethod{{security.AuthClaimToBe}, {security.AuthFS}} {
		for _, lvl := range []security.SecurityLevel{security.SecurityRequired, security.SecurityOptional} {
			cc := kit.BaseConfig(lvl, security.SecurityOptional, m...)
			sc := kit.BaseConfig(lvl, security.SecurityOptional, m...)
			r := kit.Handshake(cc, sc, 5*time.Second)
			var a, b []byte
			for _, w := range r.CConn.Written() {
				a = append(a, w...)
			}
			for _, w := range r.SConn.Written() {
				b = append(b, w...)
			}
			c2s = append(c2s, a)
			s2c = append(s2c, b)
		}
	}
	return
}

func fuzzSurface(f *testing.F, surface string, seeds [][]byte) {
	for i, s := range seeds {
		f.Add(s, byte(i))
	}
	f.Fuzz(func(t *testing.T, data []byte, mode byte) {
		if len(data) > 1<<20 {
			return
		}
		if v := check(surface, int(mode), data, false); v != "" {
			t.Fatalf("C13 violated: %s", v)
		}
	})
}

func FuzzC13Framing(f *testing.F) {
	var mb kit.MsgBuf
	mb.Int(5).Str("hello")
	seeds := [][]byte{mb.Frame(), mb.Frames(3), {0, 0, 0, 0, 0, 1, 0, 0, 0, 0}, {1, 0, 0x10, 0, 1}, {11, 0, 0, 0, 1, 0}, wrapKeyed(mb.B, 2), {1, 0xff, 0xff, 0xff, 0xff}}
	fuzzSurface(f, "framing", seeds)
}

func FuzzC13Typed(f *testing.F) {
	var ad, enc kit.MsgBuf
	ad.ClassAd([]string{"A = 1", `B = "x"`, "ZKM", "C = 1.5"}, "Machine", "Job").Int(7)
	enc.Int(2).EncStr("A = 1").EncStr("ZKM").EncStr("S = 2").EncStr("").EncStr("")
	seeds := [][]byte{
		append([]byte{12, 0, 1, 0, 0, 0, 0, 0, 0, 0, 0, 0}, ad.B...),
		append([]byte{14, 0, 1, 0, 0, 0, 0, 0, 0, 0, 0, 0}, ad.B...),
		append([]byte{15, 0, 1, 0, 0, 0, 0, 0, 0, 0, 0, 0}, ad.B...),
		append([]byte{13, 9, 1, 0, 0, 0, 0, 0, 0, 0, 0, 0}, ad.B...),
		append([]byte{12, 0, 0, 0, 0, 0, 0, 0, 0, 0, 0, 0}, enc.B...),
		append([]byte{7, 8, 2, 9, 5, 1, 10, 3, 11, 0, 0, 0}, enc.B...),
		append([]byte{7, 0, 0, 0, 0, 0, 0, 0, 0, 0, 0, 0}, 0xff, 0xff, 0xff, 0xff, 0xff, 0xff, 0xff, 0xff, 'a'),
	}
	fuzzSurface(f, "typed", seeds)
}

func FuzzC13Server(f *testing.F) {
	c2s, _ := honestStreams()
	fuzzSurface(f, "server", c2s)
}

func FuzzC13ServeConn(f *testing.F) {
	c2s, _ := honestStreams()
	var raw kit.MsgBuf
	raw.Int(68).ClassAd([]string{"A = 1"}, "", "")
	fuzzSurface(f, "serveconn", append(c2s, raw.Frame()))
}

func FuzzC13Client(f *testing.F) {
	_, s2c := honestStreams()
	fuzzSurface(f, "client", s2c)
}

func FuzzC13Text(f *testing.F) {
	seeds := [][]byte{
		[]byte("<127.0.0.1:9618?addrs=127.0.0.1-9618&sock=collector>#1700000000#5#[Encryption=\"YES\";CryptoMethods=\"AES\";ValidCommands=\"1,2\";]0123456789abcdef"),
		[]byte("<10.0.0.1:1?ccbid=10.0.0.2:9618%3faddrs%3d10.0.0.2-9618#7&sock=x>"),
		[]byte("$CondorVersion: 25.4.0 2025-10-31 BuildID: 1 $"),
		[]byte("1234 <127.0.0.1:1> 5 6"),
		[]byte("SessionKey:abc#def#[Encryption=\"YES\";] FamilySessionKey:x#y#[z]"),
		[]byte("Encryption=\"YES\";Integrity=\"NO\";CryptoMethods=\"AES,BLOWFISH\";SessionExpires=12;ValidCommands=\"1\";"),
		[]byte("upsert\x00a2V5\x00Y3Vyc29y"),
	}
	fuzzSurface(f, "text", seeds)
}

func FuzzC13CryptoState(f *testing.F) {
	p := kit.NewPair()
	_ = p.SetKey(key32)
	_ = p.A.SendMessage(kit.Bg, []byte("a"))
	_, _ = p.B.ReceiveCompleteMessage(kit.Bg)
	_ = p.B.SendMessage(kit.Bg, []byte("b"))
	_, _ = p.A.ReceiveCompleteMessage(kit.Bg)
	blob, _ := p.B.ExportCryptoState()
	_ = p.A.SendMessage(kit.Bg, []byte("next"))
	seed := append(append([]byte(nil), blob...), p.CA.Out...)
	fuzzSurface(f, "cryptostate", [][]byte{seed, blob})
}

func FuzzC13SharedPort(f *testing.F) {
	fuzzSurface(f, "sharedport", [][]byte{{1, 0, 0, 0, 8, 0, 0, 0, 0, 0, 0, 0, 76}, {1, 0, 0, 0, 64}, {1, 0xff, 0xff, 0xff, 0xff}})
}
