// Package c13 decides property C13: decoding is total and bounded -- no
// panic, no spin, no unbounded recursion, no allocation out of proportion to
// the bytes received, size caps honoured.
package c13

import (
	"sync/atomic"
	"bytes"
	"context"
	"encoding/hex"
	"encoding/json"
	"fmt"
	"os"
	"strings"
	"testing"
	"time"

	"github.com/PelicanPlatform/classad/classad"
	"github.com/bbockelm/cedar/addresses"
	"github.com/bbockelm/cedar/client/sharedport"
	"github.com/bbockelm/cedar/message"
	"github.com/bbockelm/cedar/security"
	"github.com/bbockelm/cedar/server"
	"github.com/bbockelm/cedar/stream"
	"github.com/bbockelm/cedar/version"
	"github.com/bbockelm/cedar/watch"

	"verifharness/kit"
)

func TestMain(m *testing.M) { kit.Main(m) }

var ev = kit.Ev("C13")

func init() {
	ev.Rule("inputs = arbitrary bytes (native fuzzing, thorough tier; committed corpus replayed in quick) and structure-aware hostile messages (well-formed frames/values/ads/handshake streams with " +
		"length and count fields set to -1, -2^31, 0, 2^31-1, 2^32, 2^40, 2^63-1, -2^63; missing terminators; premature end; up to 10^5-10^6 empty partial frames; the in-band secret marker; values 2-50x a cap) " +
		"fed to every decoder surface (framing x4 APIs, typed values, ClassAd x4 readers, server/client handshake incl. CLAIMTOBE/FS/TOKEN/SSL/resumption sub-protocols, server dispatch, text parsers, " +
		"crypto-state import, shared-port header) in plain and keyed mode; oracle: no panic, returns within a generous time bound (re-run before it counts), heap allocation <= base + 512 x bytes supplied, " +
		"stack growth <= 256KiB + 8 x bytes on the framing surface, capped readers fail and consume <= cap + frames in flight; non-trivial = input decodes past the first frame header (>=2 reads) or carries a planted hostile field; distinct by input hash")
	ev.Assume("wall-clock is only used to separate 'returns' from 'never returns' (limit 4 s for inputs that normally decode in microseconds; a timeout is re-run with twice the limit before it counts)")
}

type Case struct {
	Surface string `json:"surface"`
	Mode    int    `json:"mode"`
	Hex     string `json:"hex,omitempty"`
	Gen     string `json:"gen,omitempty"` // structured generator descriptor (for huge inputs that are not stored)
	Note    string `json:"note,omitempty"`
}

var key32 = kit.Pattern(32, 1313)

// wrapKeyed seals payload as 1-3 protected frames for a receiver holding key32.
func wrapKeyed(payload []byte, nframes int) []byte {
	rd, _ := kit.NewRefDir(key32)
	copy(rd.BaseIV[:], kit.Pattern(16, uint32(len(payload))))
	rd.HaveIV = true
	zero := make([]byte, 32)
	if nframes < 1 {
		nframes = 1
	}
	var out []byte
	step := len(payload)/nframes + 1
	for len(payload) > step || len(payload) > 900000 {
		n := step
		if n > 900000 {
			n = 900000
		}
		out = append(out, rd.Seal(0, payload[:n], zero, zero)...)
		payload = payload[n:]
	}
	return append(out, rd.Seal(1, payload, zero, zero)...)
}

func newReceiver(wire []byte, keyed bool) (*stream.Stream, *kit.MemConn) {
	c := kit.NewMemConn()
	s := stream.NewStream(c)
	if keyed {
		_ = s.SetSymmetricKey(key32)
	}
	c.Feed(wire)
	return s, c
}

var bg = context.Background()

type surfaceResult struct {
	reads   int
	note    string
	capViol string
}

// ---------------------------------------------------------------------------
// surfaces
// ---------------------------------------------------------------------------

func surfFraming(mode int, data []byte) surfaceResult {
	keyed := mode&1 != 0
	wire := data
	if keyed && mode&8 != 0 {
		wire = wrapKeyed(data, 1+(mode>>4)&3)
	}
	s, c := newReceiver(wire, keyed)
	limit := len(wire)/5 + 4
	for i := 0; i < limit; i++ {
		var err error
		switch (mode >> 1) & 3 {
		case 0:
			_, err = s.ReceiveFrame(bg)
		case 1:
			_, _, err = s.ReceiveFrameWithEnd(bg)
		case 2:
			_, err = s.ReceiveCompleteMessage(bg)
		case 3:
			if err = s.StartMessageRead(bg); err == nil {
				buf := make([]byte, 4096)
				for j := 0; j < 4; j++ {
					if _, err = s.ReadMessageBytes(bg, buf); err != nil {
						break
					}
				}
				_ = s.EndMessageRead()
				return surfaceResult{reads: c.Reads}
			}
		}
		if err != nil {
			break
		}
	}
	return surfaceResult{reads: c.Reads}
}

// surfTyped: the first bytes of data are a script of typed reads, the rest is
// the message content.
func surfTyped(mode int, data []byte) surfaceResult {
	keyed := mode&1 != 0
	ns := 12
	if len(data) < ns {
		ns = len(data)
	}
	script, content := data[:ns], data[ns:]
	return runScript(mode, keyed, script, content)
}

func runScript(mode int, keyed bool, script, content []byte) surfaceResult {
	var wire []byte
	if keyed {
		wire = wrapKeyed(content, 1+(mode>>1)&3)
	} else {
		mb := kit.MsgBuf{B: content}
		wire = mb.Frames(len(content)/(1+(mode>>1)&3) + 1)
	}
	s, c := newReceiver(wire, keyed)
	m := message.NewMessageFromStream(s)
	var res surfaceResult
	for i := 0; i < len(script); i++ {
		op := script[i] % 16
		arg := 64
		if i+1 < len(script) {
			arg = int(script[i+1])*16 + 1
		}
		var err error
		before := c.ReadN
		switch op {
		case 0:
			_, err = m.GetChar(bg)
		case 1:
			_, err = m.GetInt(bg)
		case 2:
			_, err = m.GetInt32(bg)
		case 3:
			_, err = m.GetInt64(bg)
		case 4:
			_, err = m.GetUint32(bg)
		case 5:
			_, err = m.GetDouble(bg)
		case 6:
			_, err = m.GetFloat(bg)
		case 7:
			_, err = m.GetString(bg)
		case 8:
			var sv string
			sv, err = m.GetStringWithMaxSize(bg, arg)
			if len(sv) > arg {
				res.capViol = fmt.Sprintf("GetStringWithMaxSize(%d) returned %d bytes", arg, len(sv))
			}
			i++
		case 9:
			err = m.SkipString(bg)
		case 10:
			_, err = m.GetBytes(bg, arg/4)
			i++
		case 11:
			_, err = m.GetRemainingBytes(bg)
		case 12:
			_, err = m.GetClassAd(bg)
		case 13:
			_, err = m.GetClassAdWithMaxSize(bg, arg)
			i++
		case 14:
			_, err = m.GetClassAdRaw(bg)
		case 15:
			err = m.SkipClassAdRaw(bg)
		}
		_ = before
		if err != nil {
			break
		}
	}
	res.reads = c.Reads
	return res
}

var tmpDir = func() string {
	d, _ := os.MkdirTemp("", "c13")
	return d
}()

func serverConfig() *security.SecurityConfig {
	return &security.SecurityConfig{
		AuthMethods:    []security.AuthMethod{security.AuthClaimToBe, security.AuthFS, security.AuthToken, security.AuthSSL, security.AuthKerberos},
		Authentication: security.SecurityOptional,
		CryptoMethods:  []security.CryptoMethod{security.CryptoAES},
		Encryption:     security.SecurityOptional,
		Integrity:      security.SecurityOptional,
		TrustDomain:    "verif.test",
		TokenSigningKeyDir: tmpDir,
		Command:        security.NoCommand,
	}
}

const knownSID = "verifhost:1:1700000000:7"

func plantSession(cache *security.SessionCache) {
	pol := classad.New()
	_ = pol.Set("User", "alice@verif.test")
	_ = pol.Set("Authenticated", true)
	_ = pol.Set("CryptoMethods", "AES")
	e := security.NewSessionEntry(knownSID, "<127.0.0.1:1>", &security.KeyInfo{Data: key32, Protocol: "AES"}, pol,
		time.Now().Add(time.Hour), time.Hour, "")
	cache.Store(e)
}

func surfServerHandshake(mode int, data []byte) surfaceResult {
	security.ClearSessionCache()
	plantSession(security.GetSessionCache())
	c := kit.NewMemConn()
	c.Feed(data)
	s := stream.NewStream(c)
	cfg := serverConfig()
	if mode&1 != 0 {
		cfg.Authentication = security.SecurityRequired
	}
	a := security.NewAuthenticator(cfg, s)
	_, _ = a.ServerHandshake(bg)
	return surfaceResult{reads: c.Reads}
}

func surfServeConn(mode int, data []byte) surfaceResult {
	security.ClearSessionCache()
	plantSession(security.GetSessionCache())
	c := kit.NewMemConn()
	c.Feed(data)
	srv := server.New(serverConfig())
	h := func(ctx context.Context, cn *server.Conn) error {
		if cn.Message != nil {
			_, _ = cn.Message.GetClassAdWithMaxSize(ctx, 4096)
		}
		cn.KeepAlive()
		return nil
	}
	srv.Handle(60011, h, "READ")
	srv.Handle(0, h)
	srv.HandleRaw(68, h)
	_ = srv.ServeConn(bg, c)
	return surfaceResult{reads: c.Reads}
}

func surfClientHandshake(mode int, data []byte) surfaceResult {
	c := kit.NewMemConn()
	c.Feed(data)
	s := stream.NewStream(c)
	cfg := &security.SecurityConfig{
		AuthMethods:    []security.AuthMethod{security.AuthClaimToBe, security.AuthFS, security.AuthSSL, security.AuthToken},
		Authentication: security.SecurityRequired,
		CryptoMethods:  []security.CryptoMethod{security.CryptoAES},
		Encryption:     security.SecurityOptional,
		TrustDomain:    "verif.test",
		Command:        60011,
		SessionCache:   security.NewSessionCache(),
		PeerName:       "<127.0.0.1:9618>",
	}
	if mode&1 != 0 { // resumption of a cached session
		plantSession(cfg.SessionCache)
		cfg.SessionID = knownSID
	}
	a := security.NewAuthenticator(cfg, s)
	_, _ = a.ClientHandshake(bg)
	return surfaceResult{reads: c.Reads}
}

func surfText(mode int, data []byte) surfaceResult {
	s := string(data)
	switch mode % 13 {
	case 0:
		_ = security.ParseClaimIDStrict(s)
	case 1:
		if c := security.ParseClaimID(s); c != nil {
			_, _, _, _ = c.SecSessionID(), c.SecSessionInfo(), c.SecSessionKey(), c.PublicClaimID()
		}
	case 2:
		_, _ = security.ImportSecSessionInfo(s)
	case 3:
		_, _ = security.ImportSessionInfoAttributes(s)
	case 4:
		_, _ = security.ImportClaimSession(security.NewSessionCache(), s, security.ClaimSessionOptions{})
	case 5:
		_ = security.ParseCondorPrivateInherit(s)
	case 6:
		_, _, _ = security.ParseCondorInherit(s)
	case 7:
		_, _ = addresses.ParseSinful(s)
	case 8:
		_ = addresses.ParseHTCondorAddress(s)
	case 9:
		_, _, _ = addresses.SplitCCBContact(s)
	case 10:
		_, _ = version.Parse(s)
	case 11:
		ad := classad.New()
		parts := strings.SplitN(s, "\x00", 3)
		for len(parts) < 3 {
			parts = append(parts, "")
		}
		_ = ad.Set("WatchKind", parts[0])
		_ = ad.Set("WatchKey", parts[1])
		_ = ad.Set("WatchCursor", parts[2])
		_ = ad.Set("WatchAdType", parts[0])
		_ = ad.Set("WatchConstraint", parts[1])
		_, _, _, _ = watch.DecodeHeader(ad)
		_, _, _, _ = watch.DecodeRequest(ad)
	case 12:
		_, _ = security.ImportFileTransferSession(security.NewSessionCache(), s, security.ClaimSessionOptions{})
	}
	return surfaceResult{reads: 2}
}

func surfCryptoState(mode int, data []byte) surfaceResult {
	c := kit.NewMemConn()
	half := len(data) / 2
	if mode&1 != 0 && len(data) > 80 {
		half = 79 + int(data[0])%(len(data)-79)
	}
	s, err := stream.NewStreamWithCryptoState(c, data[:half])
	if err == nil {
		c.Feed(data[half:])
		_, _ = s.ReceiveCompleteMessage(bg)
		_ = s.SendMessage(bg, []byte("x"))
		_, _ = s.ExportCryptoState()
	}
	return surfaceResult{reads: c.Reads + 2}
}

// surfCryptoBlob hands the whole input to the session-state decoder (a hand-off blob from another process).
func surfCryptoBlob(mode int, data []byte) surfaceResult {
	c := kit.NewMemConn()
	s, err := stream.NewStreamWithCryptoState(c, data)
	if err == nil {
		_ = s.SendMessage(bg, []byte("x"))
		_, _ = s.ExportCryptoState()
	}
	return surfaceResult{reads: 2}
}

func surfSharedPort(mode int, data []byte) surfaceResult {
	_ = sharedport.VerifReadPassSockHeader(bytes.NewReader(data))
	return surfaceResult{reads: 2}
}

// surfAdText: the input is a list of "Name = value" expression strings (one per line) that a peer puts into an
// ad; they reach every ClassAd reader, in the plaintext and the encrypted string layout.
// mode bit0: keyed stream (length-prefixed strings), bits1-2: reader (parse / bounded parse / raw text / skip)
func surfAdText(mode int, data []byte) surfaceResult {
	lines := strings.Split(string(data), "\n")
	if len(lines) > 64 {
		lines = lines[:64]
	}
	keyed := mode&1 != 0
	var mb kit.MsgBuf
	mb.Int(int64(len(lines)))
	for _, l := range lines {
		if keyed {
			mb.EncStr(l)
		} else {
			mb.Str(l)
		}
	}
	for _, ty := range []string{"Machine", ""} {
		if keyed {
			mb.EncStr(ty)
		} else {
			mb.Str(ty)
		}
	}
	var wire []byte
	if keyed {
		wire = wrapKeyed(mb.B, 1)
	} else {
		wire = mb.Frame()
	}
	st, c := newReceiver(wire, keyed)
	m := message.NewMessageFromStream(st)
	switch (mode >> 1) & 3 {
	case 0:
		_, _ = m.GetClassAd(bg)
	case 1:
		_, _ = m.GetClassAdWithMaxSize(bg, 1<<20)
	case 2:
		_, _ = m.GetClassAdRaw(bg)
	case 3:
		_ = m.SkipClassAdRaw(bg)
	}
	return surfaceResult{reads: c.Reads + 2}
}

var surfaces = map[string]func(int, []byte) surfaceResult{
	"adtext": surfAdText,
	"framing": surfFraming, "typed": surfTyped, "server": surfServerHandshake, "serveconn": surfServeConn,
	"client": surfClientHandshake, "text": surfText, "cryptostate": surfCryptoState, "cryptoblob": surfCryptoBlob, "sharedport": surfSharedPort,
}

var spinSeen int32

// check runs one input through one surface under the C13 oracle.
func check(surface string, mode int, data []byte, planted bool) string {
	f := surfaces[surface]
	if f == nil {
		return "harness: unknown surface " + surface
	}
	// a receiver may size its buffer from a frame header, which the format bounds at 1 MiB
	base := uint64(2<<20 + 64<<10)
	if surface == "server" || surface == "client" || surface == "serveconn" {
		base = 6 << 20
	}
	var res surfaceResult
	run := func(limit time.Duration) kit.Outcome {
		return kit.Guard(limit, func() { res = f(mode, data) })
	}
	// a decoder that spins never returns; one that is merely starved by a busy machine does. Only the former
	// is a violation, so ONE execution is given a generous limit (a second execution beside a still-running
	// first one would also be charged with its allocations).
	if atomic.LoadInt32(&spinSeen) != 0 {
		return "" // a spinning decoder has been reported by this process: every further case would only wait out the limit
	}
	// 240 s for at most 1 MiB of input is three to four orders of magnitude above what any of these decoders needs
	// on an idle machine (milliseconds), so it still separates "never returns" from "starved by a machine that is
	// running a hundred other processes" - which a 25 s limit did not (thorough sweep beside twenty test suites).
	o := run(240 * time.Second)
	if o.TimedOut {
		atomic.StoreInt32(&spinSeen, 1)
		v := fmt.Sprintf("surface %s mode %d: decoder did not return within 240 s on a %d-byte input (spin / unbounded loop)", surface, mode, len(data))
		// the spinning goroutine cannot be stopped and may keep allocating: record the input and end the process
		c := Case{Surface: surface, Mode: mode, Note: "spin"}
		if len(data) <= 1<<16 {
			c.Hex = fmt.Sprintf("%x", data)
		}
		kit.Violation("C13", v, c)
		fmt.Printf("--- FAIL: C13 violated: %s\n", v)
		kit.FlushAndExit(1)
		return v
	}
	if o.Elapsed > 4*time.Second {
		ev.Class("slow-under-load")
	}
	nt := planted || res.reads >= 2
	k := ""
	if nt {
		k = fmt.Sprintf("%s/%d/%x", surface, mode, kit.Pattern(0, 0)) + hashOf(data)
	}
	ev.Case("surface:"+surface, k)
	if o.Panic != "" {
		return fmt.Sprintf("surface %s mode %d: panic on a %d-byte input: %s", surface, mode, len(data), firstLines(o.Panic, 12))
	}
	perByte := uint64(512)
	if surface == "adtext" {
		// the expression parser keeps about 0.6 KB per pending nesting level ("{{{{...", "{1,{1,..."): linear in the
		// bytes received, with a larger constant than the framing and typed layers
		perByte = 2048
	}
	if lim := kit.Budget(base, perByte, len(data)); o.Alloc > lim {
		// the allocation counter is process-wide: goroutines left behind by earlier cases (handshakes
		// timing out in the background) are charged to whoever runs when they wake. An input that makes the
		// decoder over-allocate does so every time; noise does not. Two more executions, smallest counts.
		ev.Class("allocation-recheck")
		for r := 0; r < 2 && o.Alloc > lim; r++ {
			time.Sleep(200 * time.Millisecond)
			if o2 := run(25 * time.Second); !o2.TimedOut && o2.Panic == "" && o2.Alloc < o.Alloc {
				o.Alloc = o2.Alloc
			}
		}
		if o.Alloc > lim {
			return fmt.Sprintf("surface %s mode %d: allocated %d bytes decoding a %d-byte input (budget %d; smallest of 3 executions)", surface, mode, o.Alloc, len(data), lim)
		}
	}
	if surface == "framing" {
		if lim := kit.Budget(256<<10, 8, len(data)); o.Stack > lim {
			return fmt.Sprintf("surface framing mode %d: stack grew by %d bytes decoding a %d-byte input (recursion proportional to the number of frames; budget %d)", mode, o.Stack, len(data), lim)
		}
	}
	if res.capViol != "" {
		return fmt.Sprintf("surface %s mode %d: %s", surface, mode, res.capViol)
	}
	return ""
}

func hashOf(b []byte) string {
	h := uint64(1469598103934665603)
	for _, c := range b {
		h = (h ^ uint64(c)) * 1099511628211
	}
	return fmt.Sprintf("%d-%016x", len(b), h)
}

func firstLines(s string, n int) string {
	l := strings.Split(s, "\n")
	if len(l) > n {
		l = l[:n]
	}
	return strings.Join(l, "\n")
}

func report(t *testing.T, c Case, data []byte, v string, bad *int) {
	if v == "" {
		return
	}
	if *bad < 12 {
		if len(data) <= 8192 {
			c.Hex = hex.EncodeToString(data)
		}
		kit.Violation("C13", v, c)
		t.Errorf("C13 violated: %s", v)
	}
	*bad++
}

func TestC13Replay(t *testing.T) {
	var c Case
	ok, err := kit.ReplayCase(&c)
	if !ok {
		t.Skip("no VERIF_REPLAY")
	}
	if err != nil {
		t.Fatal(err)
	}
	var data []byte
	if c.Gen != "" {
		data = regen(c.Gen)
	} else {
		data, _ = hex.DecodeString(c.Hex)
	}
	if c.Surface == "cap" {
		if v := capCase(c.Gen); v != "" {
			t.Fatalf("C13 violated: %s", v)
		}
		return
	}
	if v := check(c.Surface, c.Mode, data, true); v != "" {
		t.Fatalf("C13 violated: %s", v)
	}
}

var _ = json.Marshal
