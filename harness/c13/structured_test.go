package c13

import (
	"encoding/base64"
	"fmt"
	"math"
	"strings"
	"testing"

	"github.com/bbockelm/cedar/commands"
	"github.com/bbockelm/cedar/message"
	"pgregory.net/rapid"

	"verifharness/kit"
)

var hostileInts = []int64{-1, -2, math.MinInt32, 0, 1, math.MaxInt32, 1 << 32, 1 << 40, math.MaxInt64, math.MinInt64, 200000000, 1 << 20, 65537,
	// non-negative as 64-bit values, negative or small once cut to 32 bits (and the reverse)
	1 << 31, 1<<32 - 1, 1<<32 + 1<<31, 1<<33 - 16, 0x7FFFFFFF80000000, 1<<32 + 5, -(1 << 32), -(1<<32 + 7)}

// typed operations whose first field is a peer-controlled length or count
var lenOps = []struct {
	name string
	op   byte
}{{"GetString", 7}, {"GetStringWithMaxSize", 8}, {"SkipString", 9}, {"GetClassAd", 12}, {"GetClassAdWithMaxSize", 13}, {"GetClassAdRaw", 14}, {"SkipClassAdRaw", 15}}

// TestC13HostileFields plants every hostile value in the leading length/count
// field of every typed reader, in both modes and several framings.
func TestC13HostileFields(t *testing.T) {
	bad := 0
	for _, h := range hostileInts {
		for _, lo := range lenOps {
			for mode := 0; mode < 8; mode++ {
				keyed := mode&1 != 0
				for _, tail := range []string{"", "A = 1\x00B = \"x\"\x00Machine\x00Job\x00", strings.Repeat("Z", 300)} {
					var mb kit.MsgBuf
					mb.Int(h)
					if keyed {
						mb.Int(h) // ads on a keyed stream: count then a length-prefixed string
					}
					mb.Raw([]byte(tail))
					script := []byte{lo.op, 3, lo.op, 3}
					data := append(append([]byte(nil), script...), mb.B...)
					c := Case{Surface: "typed", Mode: mode, Note: fmt.Sprintf("%s with leading field %d", lo.name, h)}
					v := check("typed", mode, padScript(data, len(script)), true)
					report(t, c, padScript(data, len(script)), v, &bad)
				}
			}
		}
	}
	ev.Exhaustive("13 hostile integers x 7 length/count-prefixed readers x {plain,keyed} x 4 framings x 3 tails")
}

// padScript places the script in the 12-byte script area expected by surfTyped.
func padScript(data []byte, ns int) []byte {
	script := append([]byte(nil), data[:ns]...)
	for len(script) < 12 {
		script = append(script, 0xf0|0x0) // op 0 = GetChar, harmless padding
	}
	return append(script, data[ns:]...)
}

// regen rebuilds a large structured input from its descriptor.
func regen(desc string) []byte {
	var kind string
	var n, mode int
	fmt.Sscanf(desc, "%s %d %d", &kind, &n, &mode)
	switch kind {
	case "emptyframes":
		out := make([]byte, 0, n*5+5)
		for i := 0; i < n; i++ {
			out = append(out, 0, 0, 0, 0, 0)
		}
		return append(out, 1, 0, 0, 0, 0)
	case "sealedempty":
		rd, _ := kit.NewRefDir(key32)
		copy(rd.BaseIV[:], kit.Pattern(16, 5))
		rd.HaveIV = true
		zero := make([]byte, 32)
		var out []byte
		for i := 0; i < n; i++ {
			out = append(out, rd.Seal(0, nil, zero, zero)...)
		}
		return append(out, rd.Seal(1, nil, zero, zero)...)
	case "tinyframes":
		out := make([]byte, 0, n*6+6)
		for i := 0; i < n; i++ {
			out = append(out, 0, 0, 0, 0, 1, 'x')
		}
		return append(out, 1, 0, 0, 0, 1, 'y')
	}
	return nil
}

// TestC13ManyFrames: messages made of very many empty / tiny partial frames.
func TestC13ManyFrames(t *testing.T) {
	bad := 0
	n := kit.Scale(100000, 1000000)
	for _, kind := range []string{"emptyframes", "tinyframes", "sealedempty"} {
		cnt := n
		if kind == "sealedempty" {
			cnt = n / 4
		}
		desc := fmt.Sprintf("%s %d 0", kind, cnt)
		data := regen(desc)
		for api := 0; api < 4; api++ {
			mode := api << 1
			if kind == "sealedempty" {
				mode |= 1
			}
			c := Case{Surface: "framing", Mode: mode, Gen: desc, Note: "many partial frames"}
			v := check("framing", mode, data, true)
			report(t, c, nil, v, &bad)
		}
		// typed layer reading one value out of such a message
		if kind != "sealedempty" {
			script := []byte{7, 3, 11}
			d2 := append(padScript(script, len(script))[:12], data...)
			_ = d2
		}
	}
	ev.Sample("many-frames", fmt.Sprintf("%d empty / 1-byte partial frames before the end frame, through 4 receive APIs, plain and sealed", n))
}

// capCase checks that a capped reader stops consuming once the cap is exceeded.
// desc: "<reader> <cap> <factor> <keyed> <marker>"
func capCase(desc string) string {
	var reader string
	var capN, factor, keyed, marker int
	fmt.Sscanf(desc, "%s %d %d %d %d", &reader, &capN, &factor, &keyed, &marker)
	big := strings.Repeat("v", capN*factor)
	var mb kit.MsgBuf
	enc := keyed == 1
	str := func(s string) {
		if enc {
			mb.EncStr(s)
		} else {
			mb.Str(s)
		}
	}
	switch reader {
	case "string":
		str(big)
	case "classad":
		mb.Int(2)
		if marker == 1 {
			str(message.SecretMarker)
			str("Secret = \"" + big + "\"")
		} else {
			str("Big = \"" + big + "\"")
		}
		str("Small = 1")
		str("Machine")
		str("Job")
	}
	mb.Int(12345)
	frameSize := 4096
	var wire []byte
	if enc {
		rd, _ := kit.NewRefDir(key32)
		copy(rd.BaseIV[:], kit.Pattern(16, uint32(capN)))
		rd.HaveIV = true
		zero := make([]byte, 32)
		b := mb.B
		for len(b) > frameSize {
			wire = append(wire, rd.Seal(0, b[:frameSize], zero, zero)...)
			b = b[frameSize:]
		}
		wire = append(wire, rd.Seal(1, b, zero, zero)...)
	} else {
		wire = mb.Frames(frameSize)
	}
	s, c := newReceiver(wire, enc)
	m := message.NewMessageFromStream(s)
	var err error
	var got int
	o := kit.Guard(8e9, func() {
		switch reader {
		case "string":
			var sv string
			sv, err = m.GetStringWithMaxSize(bg, capN)
			got = len(sv)
		case "classad":
			_, err = m.GetClassAdWithMaxSize(bg, capN)
		}
	})
	ev.Case("cap:"+reader, "cap/"+desc)
	if o.Panic != "" {
		return fmt.Sprintf("capped reader %s panicked: %s", desc, firstLines(o.Panic, 8))
	}
	if o.TimedOut {
		return fmt.Sprintf("capped reader %s did not return", desc)
	}
	if err == nil {
		return fmt.Sprintf("capped reader (%s) accepted a value %dx its cap of %d bytes without error", desc, factor, capN)
	}
	if got > capN {
		return fmt.Sprintf("capped reader (%s) returned %d bytes, more than its cap", desc, got)
	}
	// consumed <= cap + frames in flight (two frames of 4 KiB + headers/tags) + the small fields before the value
	if limit := capN + 3*(frameSize+64) + 64; c.ReadN > limit {
		return fmt.Sprintf("capped reader (%s) consumed %d wire bytes of a %d-byte message before failing (cap %d, limit %d): it buffered the oversized value",
			desc, c.ReadN, len(wire), capN, limit)
	}
	if lim := kit.Budget(1<<20, 64, capN); o.Alloc > lim {
		return fmt.Sprintf("capped reader (%s) allocated %d bytes (cap %d)", desc, o.Alloc, capN)
	}
	return ""
}

func TestC13Caps(t *testing.T) {
	bad := 0
	for _, reader := range []string{"string", "classad"} {
		for _, capN := range []int{1, 64, 1024, 4096, 65536} {
			for _, factor := range []int{2, 7, 50} {
				for keyed := 0; keyed < 2; keyed++ {
					for marker := 0; marker < 2; marker++ {
						if reader == "string" && marker == 1 {
							continue
						}
						if capN*factor > 8<<20 {
							continue
						}
						desc := fmt.Sprintf("%s %d %d %d %d", reader, capN, factor, keyed, marker)
						v := capCase(desc)
						report(t, Case{Surface: "cap", Gen: desc}, nil, v, &bad)
					}
				}
			}
		}
	}
	// the 4 KiB handshake cap against a 3 MiB secret
	for keyed := 0; keyed < 2; keyed++ {
		desc := fmt.Sprintf("classad 4096 768 %d 1", keyed)
		report(t, Case{Surface: "cap", Gen: desc}, nil, capCase(desc), &bad)
	}
	ev.Exhaustive("capped readers {GetStringWithMaxSize, GetClassAdWithMaxSize(+secret marker)} x caps {1,64,1KiB,4KiB,64KiB} x oversize factors {2,7,50} x {plain,keyed}")
}

// ---------------------------------------------------------------------------
// handshake streams
// ---------------------------------------------------------------------------

func validECDH() string {
	b := make([]byte, 65)
	b[0] = 4
	// a real point is not needed to reach the decoders; use the P-256 generator
	gx := "6b17d1f2e12c4247f8bce6e563a440f277037d812deb33a0f4a13945d898c296"
	gy := "4fe342e2fe1a7f9b8ee7eb4a7c0f9e162bce33576b315ececbb6406837bf51f5"
	for i := 0; i < 32; i++ {
		fmt.Sscanf(gx[2*i:2*i+2], "%02x", &b[1+i])
		fmt.Sscanf(gy[2*i:2*i+2], "%02x", &b[33+i])
	}
	return base64.StdEncoding.EncodeToString(b)
}

func clientAdExprs(methods, auth, enc string, extra ...string) []string {
	e := []string{
		fmt.Sprintf(`AuthMethods = "%s"`, methods), `CryptoMethods = "AES"`,
		fmt.Sprintf(`Authentication = "%s"`, auth), fmt.Sprintf(`Encryption = "%s"`, enc), `Integrity = "OPTIONAL"`,
		`Command = 60011`, `RemoteVersion = "$CondorVersion: 25.4.0 2025-10-31 $"`,
		fmt.Sprintf(`ECDHPublicKey = "%s"`, validECDH()),
		`NegotiatedSession = true`, `NewSession = "YES"`, `OutgoingNegotiation = "PREFERRED"`, `Enact = "NO"`,
	}
	return append(e, extra...)
}

func serverAdExprs(methods string, bit int, extra ...string) []string {
	e := []string{
		fmt.Sprintf(`AuthMethods = "%s"`, methods), fmt.Sprintf(`AuthMethodsList = "%s"`, methods), `CryptoMethods = "AES"`, `CryptoMethodsList = "AES"`,
		`Authentication = "YES"`, `Encryption = "YES"`, `Integrity = "NO"`,
		`RemoteVersion = "$CondorVersion: 25.4.0 2025-10-31 $"`, fmt.Sprintf(`ECDHPublicKey = "%s"`, validECDH()),
		`NegotiatedSession = true`, `Enact = "YES"`, `TrustDomain = "verif.test"`,
	}
	return append(e, extra...)
}

// genField appends one generated field to a message.
func genField(t *rapid.T, mb *kit.MsgBuf) {
	switch rapid.IntRange(0, 9).Draw(t, "field") {
	case 0, 1, 2:
		mb.Int(rapid.SampledFrom(hostileInts).Draw(t, "hostile"))
	case 3, 4:
		mb.Int(int64(rapid.SampledFrom([]int{0, 1, 2, 3, 4, -1, 256, 2048, 20, 64}).Draw(t, "small")))
	case 5:
		mb.Str(rapid.SampledFrom([]string{"", "alice@verif.test", "/tmp/FS_abc", "x", "ZKM", "eyJhbGciOiJIUzI1NiJ9.e30"}).Draw(t, "str"))
	case 6:
		mb.Str(strings.Repeat("L", rapid.SampledFrom([]int{1023, 1024, 1025, 4095, 4097, 70000}).Draw(t, "long")))
	case 7:
		mb.Raw(kit.Pattern(rapid.SampledFrom([]int{1, 16, 256, 257, 5000}).Draw(t, "rawlen"), 9))
	case 8:
		mb.Char(byte(rapid.IntRange(0, 255).Draw(t, "char")))
	case 9:
		// length-prefixed blob: length then that many (or fewer) bytes
		n := rapid.SampledFrom([]int{0, 16, 256, 300}).Draw(t, "bloblen")
		mb.Int(int64(rapid.SampledFrom([]int{n, n + 1, -1, 1 << 31, 1 << 40}).Draw(t, "declared")))
		mb.Raw(kit.Pattern(n, 3))
	}
}

func genMsgs(t *rapid.T) []byte {
	var out []byte
	n := rapid.IntRange(0, 5).Draw(t, "nmsgs")
	for i := 0; i < n; i++ {
		var mb kit.MsgBuf
		k := rapid.IntRange(0, 6).Draw(t, "nfields")
		for j := 0; j < k; j++ {
			genField(t, &mb)
		}
		if rapid.Bool().Draw(t, "split") {
			out = append(out, mb.Frames(rapid.SampledFrom([]int{1, 7, 64, 4096}).Draw(t, "fsz"))...)
		} else {
			out = append(out, mb.Frame()...)
		}
	}
	return out
}

var methodBits = map[string]int64{"CLAIMTOBE": 2, "FS": 4, "KERBEROS": 64, "SSL": 256, "TOKEN": 2048, "PASSWORD": 512}
var methodNames = []string{"CLAIMTOBE", "FS", "SSL", "TOKEN", "KERBEROS", "PASSWORD"}

func TestC13HandshakeStreams(t *testing.T) {
	rapid.Check(t, func(t *rapid.T) {
		side := rapid.SampledFrom([]string{"server", "serveconn", "client"}).Draw(t, "side")
		method := rapid.SampledFrom(methodNames).Draw(t, "method")
		mode := rapid.IntRange(0, 1).Draw(t, "mode")
		var stream []byte
		shape := rapid.IntRange(0, 5).Draw(t, "shape")
		if side == "client" {
			var mb kit.MsgBuf
			switch shape {
			case 0: // hostile count in the server ad
				mb.Int(rapid.SampledFrom(hostileInts).Draw(t, "count")).Raw([]byte("A = 1\x00"))
			case 1: // attribute far above the 4 KiB cap
				mb.ClassAd(serverAdExprs(method, 0, `Big = "`+strings.Repeat("b", 100000)+`"`), "", "")
			default:
				mb.ClassAd(serverAdExprs(method, 0), "", "")
			}
			stream = mb.Frames(rapid.SampledFrom([]int{16384, 100, 4096}).Draw(t, "adframes"))
			if mode == 1 { // resumption reply
				var rb kit.MsgBuf
				rb.ClassAd([]string{`ReturnCode = "AUTHORIZED"`, `Sid = "` + knownSID + `"`}, "", "")
				stream = rb.Frame()
			} else {
				var bm kit.MsgBuf
				bm.Int(methodBits[method])
				stream = append(stream, bm.Frame()...)
			}
			stream = append(stream, genMsgs(t)...)
			if shape == 5 { // CLAIMTOBE ack then a key-exchange message with a hostile length
				var ack, kx kit.MsgBuf
				ack.Int(1)
				kx.Int(1).Int(32).Int(3).Int(0).Int(rapid.SampledFrom(hostileInts).Draw(t, "inputLen")).Raw(kit.Pattern(40, 1))
				stream = append(stream, ack.Frame()...)
				stream = append(stream, kx.Frame()...)
			}
		} else {
			var mb kit.MsgBuf
			mb.Int(int64(commands.DC_AUTHENTICATE))
			auth := rapid.SampledFrom([]string{"REQUIRED", "OPTIONAL", "PREFERRED", "NEVER", "bogus"}).Draw(t, "auth")
			switch shape {
			case 0:
				mb.Int(rapid.SampledFrom(hostileInts).Draw(t, "count")).Raw([]byte("A = 1\x00"))
			case 1:
				mb.ClassAd(clientAdExprs(method, auth, "OPTIONAL", `Big = "`+strings.Repeat("b", 100000)+`"`), "", "")
			case 2: // session resumption of the planted session, then protected or junk frames
				mb.ClassAd([]string{`Command = 60011`, `UseSession = "YES"`, `Sid = "` + knownSID + `"`,
					fmt.Sprintf("ResumeResponse = %v", rapid.Bool().Draw(t, "rr"))}, "", "")
			default:
				mb.ClassAd(clientAdExprs(method, auth, rapid.SampledFrom([]string{"OPTIONAL", "REQUIRED", "NEVER"}).Draw(t, "enc")), "", "")
			}
			stream = mb.Frames(rapid.SampledFrom([]int{16384, 100, 4096}).Draw(t, "adframes"))
			if shape == 2 && rapid.Bool().Draw(t, "sealed") {
				var app kit.MsgBuf
				app.Int(60011).Raw(kit.Pattern(50, 2))
				stream = append(stream, wrapKeyed(app.B, 1)...)
			}
			if shape != 2 {
				var bm kit.MsgBuf
				bm.Int(methodBits[method] | int64(rapid.SampledFrom([]int{0, 0, 2, 4, 256, 2048, 1 << 20}).Draw(t, "extrabits")))
				stream = append(stream, bm.Frame()...)
			}
			stream = append(stream, genMsgs(t)...)
		}
		c := Case{Surface: side, Mode: mode, Note: "structured handshake stream, method " + method}
		v := check(side, mode, stream, true)
		ev.Class("hs:" + side + "/" + method)
		if len(stream) < 600 {
			c.Hex = fmt.Sprintf("%x", stream)
			ev.Sample("handshake-stream", c)
		}
		if v != "" {
			t.Fatalf("C13 violated: %s\nstream(%d bytes)=%x", v, len(stream), trunc(stream, 600))
		}
	})
}

func trunc(b []byte, n int) []byte {
	if len(b) > n {
		return b[:n]
	}
	return b
}

// TestC13Messages: generated typed messages read by generated scripts.
func TestC13Messages(t *testing.T) {
	rapid.Check(t, func(t *rapid.T) {
		mode := rapid.IntRange(0, 7).Draw(t, "mode")
		ns := rapid.IntRange(1, 12).Draw(t, "nscript")
		script := make([]byte, 0, 12)
		for i := 0; i < ns; i++ {
			script = append(script, byte(rapid.IntRange(0, 255).Draw(t, "op")))
		}
		var mb kit.MsgBuf
		if mode&1 != 0 && rapid.Bool().Draw(t, "encstrings") {
			n := rapid.IntRange(0, 4).Draw(t, "nstr")
			mb.Int(int64(n))
			for i := 0; i < n; i++ {
				mb.EncStr(rapid.SampledFrom([]string{"A = 1", "ZKM", "B = \"x\"", ""}).Draw(t, "es"))
			}
		}
		k := rapid.IntRange(0, 8).Draw(t, "nfields")
		for j := 0; j < k; j++ {
			genField(t, &mb)
		}
		data := append(padScript(script, len(script))[:12], mb.B...)
		c := Case{Surface: "typed", Mode: mode}
		v := check("typed", mode, data, true)
		if len(data) < 300 {
			c.Hex = fmt.Sprintf("%x", data)
			ev.Sample("typed-message", c)
		}
		if v != "" {
			t.Fatalf("C13 violated: %s\ndata=%x", v, trunc(data, 2000))
		}
	})
}

// TestC13AdTexts: expression strings a peer puts into an ad, built from a small grammar of names, blanks and
// value shapes (quoted strings with every kind of backslash and quote placement - also as the last character -,
// numbers, lists, records, calls, operators, unbalanced brackets, very long runs), through every ClassAd reader.
func TestC13AdTexts(t *testing.T) {
	inner := []string{"a", "C:", "\\", "\\\\", "\\\"", " ", "dir", "\\n", "\\x", "é", "%", "(", "'", "\t", "=", "\\0"}
	free := []string{"1", "-", "+", "1e999", ".", "true", "undefined", "strcat(", ")", "{", "}", "[", "]", ",", ";", "?", ":", "\"", "\\", "x", " ", "=", "==", "=?=", "&&", "!", "0x", "'", "a.b", "TARGET."}
	names := []string{"A", "MyType", "ClaimId", "_condor_priv_x", "", " ", "A B", "1A", "ZKM", strings.Repeat("N", 300)}
	rapid.Check(t, func(t *rapid.T) {
		n := rapid.IntRange(1, 6).Draw(t, "nlines")
		var lines []string
		for i := 0; i < n; i++ {
			var v strings.Builder
			switch rapid.IntRange(0, 3).Draw(t, "shape") {
			case 0, 1: // one quoted string
				v.WriteString("\"")
				for k := rapid.IntRange(0, 6).Draw(t, "ninner"); k > 0; k-- {
					v.WriteString(rapid.SampledFrom(inner).Draw(t, "inner"))
				}
				if rapid.IntRange(0, 5).Draw(t, "closed") != 0 {
					v.WriteString("\"")
				}
			case 2: // free pieces
				for k := rapid.IntRange(0, 10).Draw(t, "nfree"); k > 0; k-- {
					v.WriteString(rapid.SampledFrom(free).Draw(t, "free"))
				}
			case 3: // a long run
				v.WriteString(strings.Repeat(rapid.SampledFrom(append(inner, free...)).Draw(t, "rep"), rapid.SampledFrom([]int{100, 5000, 70000}).Draw(t, "replen")))
			}
			sep := rapid.SampledFrom([]string{" = ", "=", " =", "  =  ", " ", ""}).Draw(t, "sep")
			lines = append(lines, rapid.SampledFrom(names).Draw(t, "name")+sep+v.String())
		}
		mode := rapid.IntRange(0, 7).Draw(t, "mode")
		data := []byte(strings.Join(lines, "\n"))
		v := check("adtext", mode, data, true)
		if len(data) < 200 {
			ev.Sample("adtext", Case{Surface: "adtext", Mode: mode, Hex: fmt.Sprintf("%x", data)})
		}
		if v != "" {
			t.Fatalf("C13 violated: %s\ninput=%q", v, trunc(data, 500))
		}
	})
}

// TestC13ClaimIDs: structure-aware edits of well-formed claim identifiers, inheritance strings and addresses (IPv4,
// IPv6 in brackets, with parameters): every prefix, every suffix, every single-character deletion, and every
// insertion / replacement of one structural character ( # [ ] < > ? = ; " ) at every position, through every text parser.
func TestC13ClaimIDs(t *testing.T) {
	secret := strings.Repeat("0123456789abcdef", 4)
	seeds := []string{
		`<127.0.0.1:9618>#1700000000#7#[Encryption="YES";Integrity="YES";CryptoMethods="AES";ValidCommands="60011,421";]` + secret,
		`<[::1]:9618>#1700000000#7#[Encryption="YES";CryptoMethods="AES";]` + secret,
		`<[2620:0:1::5]:9618?sock=startd_1234&alias=h.example>#1700000001#12#[Encryption="NO";Integrity="NO";SessionExpires=1800000000;ShortVersion="25.4.0";]` + secret,
		`<10.1.2.3:9618?addrs=10.1.2.3-9618+[--1]-9618&noUDP&sock=a_b>#1#2#` + secret,
		`SessionKey:parent:1:2#[Encryption="YES";ValidCommands="60008,60011"]#0123456789abcdef FamilySessionKey:fam:3#[CryptoMethodsList="AES"]#fedcba9876543210`,
		`4242 <[::1]:9618?sock=master_17> 0 0`,
	}
	structural := []byte("#[]<>?=;\"&: ")
	bad := 0
	n := 0
	run := func(in string) {
		for mode := 0; mode <= 12; mode++ {
			n++
			if n%kit.NShards() != kit.Shard() {
				continue
			}
			if v := check("text", mode, []byte(in), true); v != "" && bad < 4 {
				bad++
				kit.Violation("C13", v, Case{Surface: "text", Mode: mode, Hex: fmt.Sprintf("%x", in)})
				t.Errorf("C13 violated: %s (input %q)", v, in)
			}
		}
	}
	for _, sd := range seeds {
		for i := 0; i <= len(sd); i++ {
			run(sd[:i])
			run(sd[i:])
			if i < len(sd) {
				run(sd[:i] + sd[i+1:])
			}
			if !kit.Thorough() && i%3 != 0 {
				continue
			}
			for _, c := range structural {
				run(sd[:i] + string(c) + sd[i:])
				if i < len(sd) {
					run(sd[:i] + string(c) + sd[i+1:])
				}
			}
		}
	}
	ev.Exhaustive(fmt.Sprintf("%d well-formed claim ids / inheritance strings / addresses: every prefix, suffix, single deletion, and (quick: every third position) insertion or replacement of 13 structural characters, through 13 text parsers", len(seeds)))
}

// TestC13Text: text parsers on generated hostile strings.
func TestC13Text(t *testing.T) {
	pieces := []string{"<", ">", "127.0.0.1", ":", "9618", "?", "&", "=", "sock", "addrs", "ccbid", "#", "[", "]", ";", ",", "%", "%zz", "%41",
		"Encryption=\"YES\"", "CryptoMethods=\"AES\"", "ValidCommands=\"1,2\"", "SessionExpires=99999999999999999999", " ", "\x00", "\n", "-", "+", "e",
		"$CondorVersion: ", "25.4.0", " $", "999999999999999999999", ".", "v", "abc", "é", "\xff", "FS_", "1234567890abcdef", "/", "..", "1.2.3.4:5#6", "2620:0:1::1", "{", "}"}
	rapid.Check(t, func(t *rapid.T) {
		n := rapid.IntRange(0, 40).Draw(t, "n")
		var b strings.Builder
		for i := 0; i < n; i++ {
			b.WriteString(rapid.SampledFrom(pieces).Draw(t, "piece"))
		}
		if rapid.IntRange(0, 30).Draw(t, "huge") == 0 {
			b.WriteString(strings.Repeat(rapid.SampledFrom(pieces).Draw(t, "rep"), 50000))
		}
		mode := rapid.IntRange(0, 12).Draw(t, "parser")
		s := b.String()
		v := check("text", mode, []byte(s), true)
		if len(s) < 200 {
			ev.Sample("text", Case{Surface: "text", Mode: mode, Hex: fmt.Sprintf("%x", s)})
		}
		if v != "" {
			t.Fatalf("C13 violated: %s\ninput=%q", v, trunc([]byte(s), 500))
		}
	})
}


// validStateBlob exports the crypto state of an established session (B's side of a pair that exchanged
// a cleartext prefix and n protected messages each way); withAddr also records a peer address.
func validStateBlob(salt uint32, withAddr bool) ([]byte, error) {
	p := kit.NewPair()
	if err := p.ClearExchange(0, [][]byte{kit.Pattern(9, salt)}); err != nil {
		return nil, err
	}
	if err := p.SetKey(kit.Pattern(32, salt+1)); err != nil {
		return nil, err
	}
	if withAddr {
		p.B.SetPeerAddr("<192.0.2.7:9618?sock=abc&alias=verif.example>")
	}
	for i := 0; i < int(salt%3)+1; i++ {
		if err := p.A.SendMessage(kit.Bg, []byte("ping")); err != nil {
			return nil, err
		}
		if _, err := p.B.ReceiveCompleteMessage(kit.Bg); err != nil {
			return nil, err
		}
		if err := p.B.SendMessage(kit.Bg, []byte("pong")); err != nil {
			return nil, err
		}
		if _, err := p.A.ReceiveCompleteMessage(kit.Bg); err != nil {
			return nil, err
		}
	}
	return p.B.ExportCryptoState()
}

// TestC13StateBlobs: structure-aware hostile session-state blobs. Every truncation of valid blobs, every
// single-byte replacement by 9 substitutes (so every length prefix is bumped by +-1, +-2, to 0 and to
// 0xff), and every truncation combined with a bump of the last bytes.
func TestC13StateBlobs(t *testing.T) {
	bad := 0
	n := 0
	for bi := 0; bi < kit.Scale(4, 12); bi++ {
		blob, err := validStateBlob(uint32(kit.Seed())*17+uint32(bi), bi%2 == 1)
		if err != nil {
			t.Fatalf("C13 harness: cannot export a blob: %v", err)
		}
		try := func(note string, data []byte) {
			n++
			c := Case{Surface: "cryptoblob", Note: note}
			report(t, c, data, check("cryptoblob", 0, data, true), &bad)
		}
		for l := 0; l <= len(blob); l++ {
			try(fmt.Sprintf("valid %d-byte blob truncated to %d", len(blob), l), blob[:l:l])
			// the same prefix inside a larger buffer: reading past the declared end must not be possible either
			try(fmt.Sprintf("valid %d-byte blob truncated to %d (spare capacity behind it)", len(blob), l), blob[:l])
		}
		for off := 0; off < len(blob); off++ {
			b := blob[off]
			for _, x := range []byte{0, 1, 2, 0x7f, 0x80, 0xff, b + 1, b - 1, b + 2} {
				if x == b {
					continue
				}
				mb := append([]byte(nil), blob...)
				mb[off] = x
				try(fmt.Sprintf("byte %d of a valid %d-byte blob set to %#x", off, len(blob), x), mb)
				if off >= len(blob)-80 {
					for cut := 1; cut <= 3; cut++ {
						try(fmt.Sprintf("byte %d set to %#x and %d bytes cut off", off, x, cut), mb[:len(mb)-cut:len(mb)-cut])
					}
				}
			}
		}
	}
	ev.Count("state_blob_cases", int64(n))
	ev.Exhaustive("session-state blobs: every truncation (exact and with spare capacity), 9 substitutes of every byte, and the last 80 bytes' substitutes combined with 1-3 bytes cut off")
}


// TestC13KeyExchange: a server that completes CLAIMTOBE and then announces a wrapped session key of a
// hostile length (the client's exchangeKey reads a peer-chosen length before anything is authenticated
// by a key). Deterministic: every hostile integer x 3 framings, in each of the length-like fields.
func TestC13KeyExchange(t *testing.T) {
	bad := 0
	for _, h := range hostileInts {
		for field := 0; field < 4; field++ {
			for _, fs := range []int{16384, 100, 7} {
				var ad, bm, ack, kx kit.MsgBuf
				ad.ClassAd(serverAdExprs("CLAIMTOBE", 0), "", "")
				bm.Int(methodBits["CLAIMTOBE"])
				ack.Int(1)
				v := []int64{32, 3, 0, 40} // keyLength, protocol, duration, inputLen
				v[field] = h
				kx.Int(1).Int(v[0]).Int(v[1]).Int(v[2]).Int(v[3]).Raw(kit.Pattern(40, 1))
				data := append(append(append(ad.Frames(fs), bm.Frame()...), ack.Frame()...), kx.Frames(fs)...)
				c := Case{Surface: "client", Note: fmt.Sprintf("key-exchange message with field %d = %d", field, h)}
				report(t, c, data, check("client", 0, data, true), &bad)
				if bad > 0 {
					return // a length that large may not be survivable twice
				}
			}
		}
	}
	ev.Exhaustive("13 hostile integers x 4 fields of the server's key-exchange message x 3 framings")
}
