// Package c15 decides property C15: exported crypto state resumes a session
// exactly, export is refused unless the stream is clean, import rejects
// truncated / mis-tagged / wrong-version blobs.
package c15

import (
	"bytes"
	"encoding/json"
	"fmt"
	"testing"

	"github.com/bbockelm/cedar/stream"
	"pgregory.net/rapid"

	"verifharness/kit"
)

func TestMain(m *testing.M) { kit.Main(m) }

var ev = kit.Ev("C15")

func init() {
	ev.Rule("a history on streams A (oblivious peer) and B: cleartext prefix, key, then generated ops: A->B / B->A messages (0-70KiB, single/multi-frame), " +
		"partial send on B (buffered WriteMessage), partial read on B (open StartMessageRead), completing them, crypto-mode toggles, export attempts and hand-offs " +
		"(ExportCryptoState -> NewStreamWithCryptoState on the same connection, chains up to 6); oracle: model of B's framing state decides must-refuse / must-succeed / either, " +
		"all traffic after any chain of hand-offs round-trips with A untouched, and a reference decryptor tapping both directions opens EVERY frame with strictly consecutive counters " +
		"under one base IV per direction (no nonce reuse, no IV re-send); blob truncations / magic / version corruptions must be rejected; " +
		"non-trivial = a hand-off with traffic before and after in both directions, or a refused export at a non-boundary; distinct by op list")
}

type Op struct {
	K     string `json:"k"`
	Sizes []int  `json:"s,omitempty"`
	N     int    `json:"n,omitempty"`
}

type Case struct {
	Prefix int    `json:"prefix"`
	Salt   uint32 `json:"salt"`
	NoKey  bool   `json:"nokey"`
	Ops    []Op   `json:"ops"`
}

type stats struct {
	handoffs, refusedNonBoundary     int
	beforeAB, beforeBA, afterAB, afterBA bool
}

type tap struct {
	rd    *kit.RefDir
	conn  *kit.MemConn
	seen  int
	fwd, back []byte
}

// audit opens every new frame written on conn with the reference decryptor.
func (t *tap) audit(protected func(i int) bool) string {
	for ; t.seen < len(t.conn.WriteLog); t.seen++ {
		w := t.conn.WriteLog[t.seen]
		fr, rest := kit.ParseFrames(w)
		if len(fr) != 1 || len(rest) != 0 {
			return "a write is not exactly one frame"
		}
		if !protected(t.seen) {
			continue
		}
		if _, err := t.rd.Open(fr[0], t.fwd, t.back); err != nil {
			return fmt.Sprintf("reference decryptor cannot open frame %d of this direction with counter %d (IV re-sent, counter reset or nonce reuse): %v", t.seen, t.rd.Ctr, err)
		}
	}
	return ""
}

func runCase(c Case) (string, stats) {
	var st stats
	p := kit.NewPair()
	if c.Prefix&1 != 0 {
		if err := p.ClearExchange(0, [][]byte{kit.Pattern(12, c.Salt)}); err != nil {
			return err.Error(), st
		}
	}
	if c.Prefix&2 != 0 {
		if err := p.ClearExchange(1, [][]byte{kit.Pattern(3, c.Salt+1), kit.Pattern(4, c.Salt+2)}); err != nil {
			return err.Error(), st
		}
	}
	key := kit.Pattern(32, c.Salt+3)
	keyed := !c.NoKey
	if keyed {
		if err := p.SetKey(key); err != nil {
			return err.Error(), st
		}
	}
	A, B := p.A, p.B
	digAB, digBA := p.ClearAB.Sum(), p.ClearBA.Sum()
	rdA, _ := kit.NewRefDir(key)
	rdB, _ := kit.NewRefDir(key)
	tapA := &tap{rd: rdA, conn: p.CA, seen: len(p.CA.WriteLog), fwd: digAB, back: digBA}
	tapB := &tap{rd: rdB, conn: p.CB, seen: len(p.CB.WriteLog), fwd: digBA, back: digAB}
	protA, protB := map[int]bool{}, map[int]bool{} // write index -> protected

	modeOn := keyed
	sentProt, recvProt := 0, 0 // protected frames B has sent / received
	sendState := "clean"       // clean | buffered | eom
	var pendingSend []byte     // bytes buffered in B's open outgoing message
	readOpen := false
	var readMsg []byte // message B has opened
	readDone := 0
	stalled := false      // B tried to open a message whose final frame has not arrived yet: frames of it are consumed
	var stallLast []byte  // the final frame A still holds back
	var stallWhole []byte // the whole message
	seq := uint32(100)
	handed := false

	mark := func(conn *kit.MemConn, m map[int]bool, from int, prot bool) int {
		n := 0
		for i := from; i < len(conn.WriteLog); i++ {
			m[i] = prot
			n++
		}
		return n
	}
	auditAll := func() string {
		if !keyed {
			return ""
		}
		if v := tapA.audit(func(i int) bool { return protA[i] }); v != "" {
			return "A->B: " + v
		}
		if v := tapB.audit(func(i int) bool { return protB[i] }); v != "" {
			return "B->A: " + v
		}
		return ""
	}
	sendMsg := func(S *stream.Stream, sizes []int) ([]byte, error) {
		var whole []byte
		for j, n := range sizes {
			pl := kit.Pattern(n, c.Salt+seq)
			seq++
			whole = append(whole, pl...)
			var err error
			if j < len(sizes)-1 {
				err = S.SendPartialMessage(kit.Bg, pl)
			} else {
				err = S.SendMessage(kit.Bg, pl)
			}
			if err != nil {
				return nil, err
			}
		}
		return whole, nil
	}

	// messages A has sent that B has not read yet (the peer does not wait for B: it pipelines)
	type queued struct {
		whole []byte
		prot  int
	}
	var queue []queued
	recvQueued := func(oi int) string {
		q := queue[0]
		queue = queue[1:]
		got, err := B.ReceiveCompleteMessage(kit.Bg)
		if err != nil {
			return fmt.Sprintf("op %d: B cannot receive a message A sent before B got round to reading it (hand-offs so far %d, %d more waiting): %v", oi, st.handoffs, len(queue), err)
		}
		if !bytes.Equal(got, q.whole) {
			return fmt.Sprintf("op %d: pipelined A->B message differs: %s", oi, kit.FirstDiff(q.whole, got))
		}
		recvProt += q.prot
		if handed {
			st.afterAB = true
		}
		return ""
	}
	for oi, op := range c.Ops {
		boundaryB := sendState == "clean" && !readOpen && !stalled
		if len(queue) > 0 && (op.K == "a2b" || op.K == "bopen" || op.K == "bstall" || op.K == "mode" || op.K == "rekey") {
			for len(queue) > 0 { // these operations want an empty pipe
				if v := recvQueued(oi); v != "" {
					return v, st
				}
			}
		}
		switch op.K {
		case "asend": // A sends 1-3 messages back to back; B reads none of them yet
			if readOpen || stalled {
				continue
			}
			for i := 0; i < 1+op.N%3; i++ {
				w0 := len(p.CA.WriteLog)
				whole, err := sendMsg(A, op.Sizes)
				if err != nil {
					return fmt.Sprintf("op %d: A send: %v", oi, err), st
				}
				n := mark(p.CA, protA, w0, modeOn)
				if !modeOn {
					n = 0
				}
				queue = append(queue, queued{whole, n})
			}
		case "brecv": // B reads the next waiting message
			if readOpen || stalled || len(queue) == 0 {
				continue
			}
			if v := recvQueued(oi); v != "" {
				return v, st
			}
		case "a2b":
			if readOpen || stalled {
				continue
			}
			w0 := len(p.CA.WriteLog)
			whole, err := sendMsg(A, op.Sizes)
			if err != nil {
				return fmt.Sprintf("op %d: A send: %v", oi, err), st
			}
			n := mark(p.CA, protA, w0, modeOn)
			got, err := B.ReceiveCompleteMessage(kit.Bg)
			if err != nil {
				return fmt.Sprintf("op %d: B cannot receive A's message (hand-offs so far %d): %v", oi, st.handoffs, err), st
			}
			if !bytes.Equal(got, whole) {
				return fmt.Sprintf("op %d: A->B message differs: %s", oi, kit.FirstDiff(whole, got)), st
			}
			if modeOn {
				recvProt += n
			}
			if handed {
				st.afterAB = true
			} else {
				st.beforeAB = true
			}
		case "b2a":
			if sendState != "clean" {
				continue
			}
			w0 := len(p.CB.WriteLog)
			whole, err := sendMsg(B, op.Sizes)
			if err != nil {
				return fmt.Sprintf("op %d: B send (hand-offs so far %d): %v", oi, st.handoffs, err), st
			}
			n := mark(p.CB, protB, w0, modeOn)
			got, err := A.ReceiveCompleteMessage(kit.Bg)
			if err != nil {
				return fmt.Sprintf("op %d: oblivious peer A cannot receive B's message (hand-offs so far %d): %v", oi, st.handoffs, err), st
			}
			if !bytes.Equal(got, whole) {
				return fmt.Sprintf("op %d: B->A message differs: %s", oi, kit.FirstDiff(whole, got)), st
			}
			if modeOn {
				sentProt += n
			}
			if handed {
				st.afterBA = true
			} else {
				st.beforeBA = true
			}
		case "bwrite": // buffer part of an outgoing message on B
			if sendState == "eom" {
				B.StartMessage()
				sendState = "clean"
			}
			if sendState == "clean" {
				B.StartMessage()
			}
			n := op.N%3000 + 1
			if len(pendingSend)+n >= 4096 {
				continue // would flush; keep the model simple: stay below the threshold
			}
			pl := kit.Pattern(n, c.Salt+seq)
			seq++
			if err := B.WriteMessage(kit.Bg, pl); err != nil {
				return fmt.Sprintf("op %d: WriteMessage: %v", oi, err), st
			}
			pendingSend = append(pendingSend, pl...)
			sendState = "buffered"
		case "bend": // finish the buffered message
			if sendState != "buffered" {
				continue
			}
			w0 := len(p.CB.WriteLog)
			if err := B.EndMessage(kit.Bg); err != nil {
				return fmt.Sprintf("op %d: EndMessage: %v", oi, err), st
			}
			n := mark(p.CB, protB, w0, modeOn)
			got, err := A.ReceiveCompleteMessage(kit.Bg)
			if err != nil || !bytes.Equal(got, pendingSend) {
				return fmt.Sprintf("op %d: buffered message did not arrive intact at A (err=%v)", oi, err), st
			}
			if modeOn {
				sentProt += n
			}
			pendingSend = nil
			sendState = "eom"
		case "bstart": // StartMessage after EndMessage: back to a clean boundary
			if sendState == "eom" {
				B.StartMessage()
				sendState = "clean"
			}
		case "bopen": // B opens a message read and consumes part of it
			if readOpen || stalled {
				continue
			}
			w0 := len(p.CA.WriteLog)
			sizes := op.Sizes
			whole, err := sendMsg(A, sizes)
			if err != nil {
				return fmt.Sprintf("op %d: A send: %v", oi, err), st
			}
			n := mark(p.CA, protA, w0, modeOn)
			if err := B.StartMessageRead(kit.Bg); err != nil {
				return fmt.Sprintf("op %d: StartMessageRead (hand-offs so far %d): %v", oi, st.handoffs, err), st
			}
			if modeOn {
				recvProt += n
			}
			readOpen, readMsg, readDone = true, whole, 0
			k := op.N % (len(whole) + 1)
			if k > 0 {
				buf := make([]byte, k)
				g, err := B.ReadMessageBytes(kit.Bg, buf)
				if err != nil || !bytes.Equal(buf[:g], whole[:g]) {
					return fmt.Sprintf("op %d: partial read wrong (err=%v)", oi, err), st
				}
				readDone = g
			}
		case "bstall": // A sends all but the final frame of a message; B's attempt to open it fails half-way
			if readOpen || stalled || len(op.Sizes) < 2 {
				continue
			}
			w0 := len(p.CA.WriteLog)
			stallWhole = nil
			for j, n := range op.Sizes {
				pl := kit.Pattern(n, c.Salt+seq)
				seq++
				stallWhole = append(stallWhole, pl...)
				if j == len(op.Sizes)-1 {
					stallLast = pl
					break
				}
				if err := A.SendPartialMessage(kit.Bg, pl); err != nil {
					return fmt.Sprintf("op %d: A send: %v", oi, err), st
				}
			}
			n := mark(p.CA, protA, w0, modeOn)
			if err := B.StartMessageRead(kit.Bg); err == nil {
				return fmt.Sprintf("op %d: StartMessageRead reported a complete message although its final frame has not been sent", oi), st
			}
			if modeOn {
				recvProt += n
			}
			stalled = true
		case "bresume": // the final frame arrives; B opens the message again
			if !stalled {
				continue
			}
			w0 := len(p.CA.WriteLog)
			if err := A.SendMessage(kit.Bg, stallLast); err != nil {
				return fmt.Sprintf("op %d: A send: %v", oi, err), st
			}
			n := mark(p.CA, protA, w0, modeOn)
			if modeOn {
				recvProt += n
			}
			stalled = false
			if err := B.StartMessageRead(kit.Bg); err != nil {
				return "", st // the receiver gave the message up: allowed, nothing more to follow in this history
			}
			readOpen, readMsg, readDone = true, stallWhole, 0
		case "bclose": // consume the rest and close the read
			if !readOpen {
				continue
			}
			for readDone < len(readMsg) {
				buf := make([]byte, len(readMsg)-readDone)
				g, err := B.ReadMessageBytes(kit.Bg, buf)
				if err != nil || g == 0 || !bytes.Equal(buf[:g], readMsg[readDone:readDone+g]) {
					return fmt.Sprintf("op %d: reading the rest of the open message failed (err=%v)", oi, err), st
				}
				readDone += g
			}
			if err := B.EndMessageRead(); err != nil {
				return fmt.Sprintf("op %d: EndMessageRead: %v", oi, err), st
			}
			readOpen = false
		case "rekey":
			// the same key installed again on both streams: a NEW session (fresh IVs, counters at zero), so export is
			// refused again until a protected frame has travelled in both directions under it
			if !keyed || !boundaryB || handed {
				continue
			}
			if v := auditAll(); v != "" {
				return fmt.Sprintf("op %d: %s", oi, v), st
			}
			if err := A.SetSymmetricKey(key); err != nil {
				return "harness: " + err.Error(), st
			}
			if err := B.SetSymmetricKey(key); err != nil {
				return "harness: " + err.Error(), st
			}
			tapA.rd, _ = kit.NewRefDir(key)
			tapB.rd, _ = kit.NewRefDir(key)
			modeOn, sentProt, recvProt = true, 0, 0
		case "mode":
			if !keyed || !boundaryB {
				continue
			}
			modeOn = op.N%2 == 0
			A.SetCryptoMode(modeOn)
			B.SetCryptoMode(modeOn)
		case "export", "handoff":
			blob, err := B.ExportCryptoState()
			mustRefuse := !keyed || !modeOn || sentProt == 0 || recvProt == 0 || sendState == "buffered" || readOpen || stalled
			either := sendState == "eom"
			switch {
			case mustRefuse && err == nil:
				return fmt.Sprintf("op %d: ExportCryptoState succeeded although it must refuse (keyed=%v encrypting=%v protected frames sent=%d received=%d send=%s readOpen=%v half-received message=%v)",
					oi, keyed, modeOn, sentProt, recvProt, sendState, readOpen, stalled), st
			case !mustRefuse && !either && err != nil:
				return fmt.Sprintf("op %d: ExportCryptoState refused at a clean boundary of an established session: %v", oi, err), st
			}
			if mustRefuse && keyed && modeOn && sentProt > 0 && recvProt > 0 {
				st.refusedNonBoundary++
			}
			if err != nil || op.K == "export" {
				continue
			}
			nb, err := stream.NewStreamWithCryptoState(p.CB, blob)
			if err != nil {
				return fmt.Sprintf("op %d: import of a freshly exported blob failed: %v", oi, err), st
			}
			if !nb.IsEncrypted() {
				return fmt.Sprintf("op %d: imported stream is not encrypting", oi), st
			}
			B = nb
			st.handoffs++
			handed = true
			if either {
				sendState = "clean" // a new stream has no pending end-of-message marker
			}
		}
		if v := auditAll(); v != "" {
			return fmt.Sprintf("op %d (%s): %s", oi, op.K, v), st
		}
	}
	return "", st
}

var sizes = []int{0, 1, 16, 100, 4095, 4096, 5000, 70000}

func genCase(t *rapid.T) Case {
	c := Case{Prefix: rapid.IntRange(0, 3).Draw(t, "prefix"), Salt: rapid.Uint32().Draw(t, "salt"),
		NoKey: rapid.IntRange(0, 19).Draw(t, "nokey") == 0}
	n := rapid.IntRange(3, 30).Draw(t, "nops")
	if rapid.IntRange(0, 9).Draw(t, "warm") < 7 { // most histories start with traffic in both directions
		c.Ops = append(c.Ops, Op{K: "a2b", Sizes: []int{rapid.SampledFrom(sizes).Draw(t, "w1")}}, Op{K: "b2a", Sizes: []int{rapid.SampledFrom(sizes).Draw(t, "w2")}})
	}
	for i := 0; i < n; i++ {
		k := rapid.SampledFrom([]string{"a2b", "a2b", "b2a", "b2a", "bwrite", "bend", "bstart", "bopen", "bclose", "mode", "export", "handoff", "handoff", "handoff", "bstall", "bresume", "asend", "asend", "brecv", "brecv", "rekey"}).Draw(t, "op")
		op := Op{K: k, N: rapid.IntRange(0, 100000).Draw(t, "n")}
		if k == "a2b" || k == "b2a" || k == "bopen" || k == "asend" {
			nf := rapid.SampledFrom([]int{1, 1, 2, 3}).Draw(t, "nframes")
			for j := 0; j < nf; j++ {
				op.Sizes = append(op.Sizes, rapid.SampledFrom(sizes).Draw(t, "size"))
			}
		}
		if k == "bstall" {
			nf := rapid.SampledFrom([]int{2, 2, 3}).Draw(t, "stallframes")
			for j := 0; j < nf; j++ {
				op.Sizes = append(op.Sizes, rapid.SampledFrom([]int{1, 16, 100, 5000}).Draw(t, "size"))
			}
		}
		c.Ops = append(c.Ops, op)
	}
	return c
}

func record(c Case, st stats) {
	k := ""
	if (st.handoffs > 0 && st.beforeAB && st.beforeBA && st.afterAB && st.afterBA) || st.refusedNonBoundary > 0 {
		b, _ := json.Marshal(c)
		k = string(b)
	}
	class := fmt.Sprintf("handoffs:%d", st.handoffs)
	if st.handoffs > 3 {
		class = "handoffs:4+"
	}
	ev.Case(class, k)
	if st.refusedNonBoundary > 0 {
		ev.Class("refused-at-non-boundary")
	}
	ev.Count("handoffs", int64(st.handoffs))
}

// TestC15Directed: every kind of half-done state with an export attempt in the middle, then the hand-off
// at the next clean boundary and traffic both ways.
func TestC15Directed(t *testing.T) {
	warm := []Op{{K: "a2b", Sizes: []int{40}}, {K: "b2a", Sizes: []int{17}}}
	tail := []Op{{K: "handoff"}, {K: "a2b", Sizes: []int{5, 100}}, {K: "b2a", Sizes: []int{4096}}, {K: "handoff"}, {K: "b2a", Sizes: []int{0}}, {K: "a2b", Sizes: []int{1}}}
	mids := [][]Op{
		{{K: "bstall", Sizes: []int{100, 50}}, {K: "export"}, {K: "handoff"}, {K: "bresume"}, {K: "export"}, {K: "bclose"}},
		{{K: "bstall", Sizes: []int{1, 16, 5000}}, {K: "handoff"}, {K: "bresume"}, {K: "bclose"}},
		{{K: "bopen", Sizes: []int{100, 50}, N: 40}, {K: "export"}, {K: "handoff"}, {K: "bclose"}},
		{{K: "bopen", Sizes: []int{100}, N: 0}, {K: "handoff"}, {K: "bclose"}},
		{{K: "bwrite", N: 10}, {K: "export"}, {K: "handoff"}, {K: "bend"}, {K: "handoff"}, {K: "bstart"}},
		{{K: "mode", N: 1}, {K: "handoff"}, {K: "mode", N: 0}},
		{{K: "a2b", Sizes: []int{20}}, {K: "b2a", Sizes: []int{9}}, {K: "rekey"}, {K: "export"}, {K: "a2b", Sizes: []int{20}}, {K: "export"}, {K: "b2a", Sizes: []int{9}}, {K: "handoff"}, {K: "a2b", Sizes: []int{20}}, {K: "b2a", Sizes: []int{9}}},
		{{K: "a2b", Sizes: []int{20}}, {K: "b2a", Sizes: []int{9}}, {K: "rekey"}, {K: "b2a", Sizes: []int{9}}, {K: "export"}, {K: "rekey"}, {K: "export"}},
		{{K: "asend", Sizes: []int{30}, N: 2}, {K: "brecv"}, {K: "handoff"}, {K: "brecv"}, {K: "handoff"}, {K: "brecv"}},
		{{K: "asend", Sizes: []int{5000, 10}, N: 1}, {K: "brecv"}, {K: "export"}, {K: "handoff"}, {K: "b2a", Sizes: []int{9}}, {K: "brecv"}},
	}
	bad := 0
	for i, mid := range mids {
		for prefix := 0; prefix < 4; prefix++ {
			c := Case{Prefix: prefix, Salt: uint32(7000 + i*4 + prefix)}
			c.Ops = append(append(append(c.Ops, warm...), mid...), tail...)
			v, st := runCase(c)
			record(c, st)
			if v != "" && bad < 4 {
				bad++
				kit.Violation("C15", v, c)
				t.Errorf("C15 violated: %s", v)
			}
		}
	}
	ev.Exhaustive("8 states (two of them: the peer has pipelined further messages that B has not read at the hand-off; message half-received after a failed open, twice; open read; unread open message; buffered send; crypto mode off) x 4 cleartext prefixes, each with export attempts inside and hand-offs after")
}

func TestC15Histories(t *testing.T) {
	rapid.Check(t, func(t *rapid.T) {
		c := genCase(t)
		v, st := runCase(c)
		record(c, st)
		ev.Sample("history", c)
		if v != "" {
			js, _ := json.Marshal(c)
			t.Fatalf("C15 violated: %s\ncase: %s", v, js)
		}
	})
}

// validBlob produces an exported blob from an established session.
func validBlob(salt uint32) ([]byte, *kit.Pair, error) {
	p := kit.NewPair()
	if err := p.ClearExchange(0, [][]byte{kit.Pattern(9, salt)}); err != nil {
		return nil, nil, err
	}
	if err := p.SetKey(kit.Pattern(32, salt+1)); err != nil {
		return nil, nil, err
	}
	for i := 0; i < int(salt%3)+1; i++ {
		if err := p.A.SendMessage(kit.Bg, []byte("ping")); err != nil {
			return nil, nil, err
		}
		if _, err := p.B.ReceiveCompleteMessage(kit.Bg); err != nil {
			return nil, nil, err
		}
		if err := p.B.SendMessage(kit.Bg, []byte("pong")); err != nil {
			return nil, nil, err
		}
		if _, err := p.A.ReceiveCompleteMessage(kit.Bg); err != nil {
			return nil, nil, err
		}
	}
	b, err := p.B.ExportCryptoState()
	return b, p, err
}

// TestC15Blobs: every truncation and every single-byte corruption of the
// tag/version of valid blobs; other corruptions must not panic.
func TestC15Blobs(t *testing.T) {
	bad := 0
	report := func(what string, cs any) {
		if bad < 5 {
			kit.Violation("C15", what, cs)
			t.Errorf("C15 violated: %s", what)
		}
		bad++
	}
	nb := kit.Scale(5, 20)
	for bi := 0; bi < nb; bi++ {
		blob, p, err := validBlob(uint32(kit.Seed())*31 + uint32(bi))
		if err != nil {
			report("cannot export from an established clean session: "+err.Error(), bi)
			continue
		}
		for l := 0; l < len(blob); l++ {
			_, err := stream.NewStreamWithCryptoState(p.CB, blob[:l])
			ev.Case("truncation", fmt.Sprintf("trunc/%d/%d", bi, l))
			if err == nil {
				report(fmt.Sprintf("blob truncated to %d of %d bytes was accepted", l, len(blob)), map[string]any{"blob": bi, "len": l})
			}
		}
		for off := 0; off < len(blob); off++ {
			for _, x := range []byte{0x01, 0x80, 0xff} {
				mb := append([]byte(nil), blob...)
				mb[off] ^= x
				var ierr error
				func() {
					defer func() {
						if r := recover(); r != nil {
							ierr = fmt.Errorf("panic: %v", r)
							report(fmt.Sprintf("import panicked on a blob corrupted at offset %d: %v", off, r), map[string]any{"blob": bi, "off": off, "xor": x})
						}
					}()
					_, ierr = stream.NewStreamWithCryptoState(p.CB, mb)
				}()
				ev.Case("corruption", fmt.Sprintf("corrupt/%d/%d/%d", bi, off, x))
				if off < 6 && ierr == nil {
					report(fmt.Sprintf("blob with corrupted magic/version byte %d was accepted", off), map[string]any{"blob": bi, "off": off, "xor": x})
				}
			}
		}
		if bi == 0 {
			ev.Sample("blob", fmt.Sprintf("%d-byte blob from an established session; all %d truncations and %d single-byte corruptions tried", len(blob), len(blob), 3*len(blob)))
		}
	}
	ev.Exhaustive("every truncation length and 3 corruptions of every byte of the sampled blobs")
}

func TestC15Replay(t *testing.T) {
	var c Case
	ok, err := kit.ReplayCase(&c)
	if !ok {
		t.Skip("no VERIF_REPLAY")
	}
	if err != nil {
		t.Fatal(err)
	}
	if v, _ := runCase(c); v != "" {
		t.Fatalf("C15 violated: %s", v)
	}
}
