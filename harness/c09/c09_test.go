// Package c09 decides property C09: private attributes are never serialised
// unless the caller opted in, are withheld from old peers, and never travel in
// the clear on a stream that holds a key.
package c09

import (
	"bytes"
	"encoding/json"
	"fmt"
	"io"
	"strings"
	"testing"

	"github.com/PelicanPlatform/classad/classad"
	"github.com/bbockelm/cedar/message"
	"github.com/bbockelm/cedar/stream"
	"pgregory.net/rapid"

	"verifharness/kit"
)

func TestMain(m *testing.M) { kit.Main(m) }

var ev = kit.Ev("C09")

func init() {
	ev.Rule("an ad = 0-6 public attributes + 1-5 private ones (the six fixed names and _condor_priv<suffix> in generated case variants; every case mask of short names is enumerated separately); " +
		"private values carry unique canaries (also nested in expressions); configuration = all 2^6 option bits x whitelist {none, public only, naming private attrs same/different case} x " +
		"peer version {nil, 9.8.9, 9.9.0, 8.9.6, 25.0.0} x stream state {no key, keyed+encrypting, keyed+not encrypting}; oracle: independent private(name) predicate and inclusion model; " +
		"without opt-in no private name and no canary occurs in the emitted bytes nor in the reference-decrypted plaintext; with opt-in on a keyed non-encrypting stream canaries occur only inside frames " +
		"that open under the reference codec and both receivers reconstruct the ad; non-trivial = a private name spelled differently from the canonical form, a whitelist naming a private attribute, " +
		"or opt-in on the keyed non-encrypting stream; distinct by (ad, configuration)")
}

var fixedPrivate = []string{"Capability", "ChildClaimIds", "ClaimId", "ClaimIdList", "ClaimIds", "TransferKey"}

// refPrivate is the harness's own predicate, written from the property text.
func refPrivate(name string) (v1, v2 bool) {
	l := strings.ToLower(name)
	switch l {
	case "capability", "childclaimids", "claimid", "claimidlist", "claimids", "transferkey":
		v1 = true
	}
	v2 = strings.HasPrefix(l, "_condor_priv")
	return
}

func caseMask(s string, mask uint32) string {
	b := []byte(s)
	k := uint(0)
	for i, c := range b {
		if (c >= 'a' && c <= 'z') || (c >= 'A' && c <= 'Z') {
			if mask&(1<<(k%32)) != 0 {
				b[i] = c ^ 0x20
			}
			k++
		}
	}
	return string(b)
}

type PAttr struct {
	Name   string `json:"name"`
	Nested int    `json:"nested"` // 0 plain string, 1 strcat(...), 2 list, 3 record
}

type Case struct {
	Public    int     `json:"public"`
	Private   []PAttr `json:"private"`
	Options   int     `json:"options"`
	Whitelist int     `json:"whitelist"` // 0 none, 1 public only, 2 + private same case, 3 + private other case
	// Refs: for every private attribute the ad also holds a PUBLIC attribute whose value is an expression
	// that refers to it (IsClaimed = ClaimId =!= undefined); whitelisting or sending the public one must not
	// drag the private one along
	Refs bool `json:"refs,omitempty"`
	Version   int     `json:"version"`   // index into versions
	State     int     `json:"state"`     // 0 no key, 1 keyed encrypting, 2 keyed not encrypting
	Salt      uint32  `json:"salt"`
	// Last: the ad is the last thing in its message (no integer follows it), so whatever frame the
	// serialiser's last attribute or type name leaves open is the one FinishMessage closes
	Last bool `json:"last,omitempty"`
	// Early: the sending Message object exists before the stream gets its key / has its crypto mode switched
	// (a long-lived message object, or one made right after connecting): what counts is the stream's state when
	// the ad is serialised
	Early bool `json:"early,omitempty"`
}

var versions = []*message.HTCondorVersion{nil, message.NewHTCondorVersion(9, 8, 9), message.NewHTCondorVersion(9, 9, 0),
	message.NewHTCondorVersion(8, 9, 6), message.NewHTCondorVersion(25, 0, 0)}
var versionOld = []bool{false, true, false, true, false}

const sentinel = 777001

func canary(c Case, i int) string { return fmt.Sprintf("CANARY_%08x_%d_Qz", c.Salt, i) }

type res struct {
	viol       string
	nontrivial bool
}

func runCase(c Case) res {
	var r res
	ad := classad.New()
	var pubNames []string
	for i := 0; i < c.Public; i++ {
		n := fmt.Sprintf("Pub%d", i)
		pubNames = append(pubNames, n)
		if i%2 == 0 {
			_ = ad.Set(n, int64(i*7))
		} else {
			_ = ad.Set(n, fmt.Sprintf("public-value-%d", i))
		}
	}
	seen := map[string]bool{}
	inserted := map[int]bool{}
	var privs []PAttr
	for i, p := range c.Private {
		l := strings.ToLower(p.Name)
		if seen[l] {
			continue
		}
		seen[l] = true
		cn := canary(c, i)
		var text string
		switch p.Nested {
		case 1:
			text = fmt.Sprintf(`strcat("%s", "tail")`, cn)
		case 2:
			text = fmt.Sprintf(`{1, "%s"}`, cn)
		case 3:
			text = fmt.Sprintf(`[k = "%s"]`, cn)
		default:
			text = fmt.Sprintf(`"%s"`, cn)
		}
		e, err := classad.ParseExpr(text)
		if err != nil {
			r.viol = "harness: " + err.Error()
			return r
		}
		ad.InsertExpr(p.Name, e)
		inserted[i] = true
		privs = append(privs, p)
		canon := false
		for _, f := range fixedPrivate {
			if f == p.Name {
				canon = true
			}
		}
		if !canon && !strings.HasPrefix(p.Name, "_condor_priv") {
			r.nontrivial = true
		}
	}
	if c.Refs {
		for i, p := range privs {
			e, err := classad.ParseExpr(p.Name + " =!= undefined")
			if err != nil {
				continue
			}
			n := fmt.Sprintf("RefersTo%d", i)
			ad.InsertExpr(n, e)
			pubNames = append(pubNames, n)
		}
	}
	cfg := &message.PutClassAdConfig{Options: message.PutClassAdOptions(c.Options), PeerVersion: versions[c.Version]}
	wlPrivate := map[string]bool{}
	switch c.Whitelist {
	case 1:
		cfg.Whitelist = append([]string{"NoSuchAttr"}, pubNames...)
	case 2:
		cfg.Whitelist = append([]string{}, pubNames...)
		for _, p := range privs {
			cfg.Whitelist = append(cfg.Whitelist, p.Name)
			wlPrivate[p.Name] = true
		}
		r.nontrivial = true
	case 3:
		cfg.Whitelist = append([]string{}, pubNames...)
		for _, p := range privs {
			cfg.Whitelist = append(cfg.Whitelist, caseMask(p.Name, 0x5)) // not an exact match: "either" for inclusion
		}
		r.nontrivial = true
	}
	optIn := c.Options&int(message.PutClassAdIncludePrivate) != 0 && c.Options&int(message.PutClassAdNoPrivate) == 0
	noTypes := c.Options&int(message.PutClassAdNoTypes) != 0
	oldPeer := versionOld[c.Version]

	key := kit.Pattern(32, c.Salt+5)
	ca := kit.NewMemConn()
	ca.RecordWrites = true
	A := stream.NewStream(ca)
	cb := kit.NewMemConn()
	B := stream.NewStream(cb)
	var msg *message.Message
	if c.Early {
		msg = message.NewMessageForStream(A)
	}
	if c.State != 0 {
		_ = A.SetSymmetricKey(key)
		_ = B.SetSymmetricKey(key)
		if c.State == 2 {
			A.SetCryptoMode(false)
			B.SetCryptoMode(false)
		}
	}
	if msg == nil {
		msg = message.NewMessageForStream(A)
	}
	if err := msg.PutClassAdWithOptions(kit.Bg, ad, cfg); err != nil {
		r.viol = "sender refused the ad: " + err.Error()
		return r
	}
	if !c.Last {
		if err := msg.PutInt(kit.Bg, sentinel); err != nil {
			r.viol = err.Error()
			return r
		}
	}
	if err := msg.FinishMessage(kit.Bg); err != nil {
		r.viol = err.Error()
		return r
	}
	raw := ca.Out

	// Independent reconstruction of what travelled in the clear and what was protected.
	zero := make([]byte, 32)
	rd, _ := kit.NewRefDir(key)
	var plain []byte       // full logical plaintext of the message
	var clearBytes []byte  // bytes that were readable on the wire
	protectedFrames := 0
	expectSecret := false
	for _, w := range ca.WriteLog {
		fr, rest := kit.ParseFrames(w)
		if len(fr) != 1 || len(rest) != 0 {
			r.viol = "a write is not exactly one frame"
			return r
		}
		switch {
		case c.State == 1 || (c.State == 2 && expectSecret):
			pt, err := rd.Open(fr[0], zero, zero)
			if err != nil {
				r.viol = fmt.Sprintf("frame expected to be protected does not open under the reference codec: %v", err)
				return r
			}
			plain = append(plain, pt...)
			protectedFrames++
			expectSecret = false
		default:
			plain = append(plain, fr[0].Body...)
			clearBytes = append(clearBytes, fr[0].Raw...)
			if c.State == 2 && bytes.HasSuffix(fr[0].Body, []byte("ZKM\x00")) {
				expectSecret = true
			}
		}
	}
	if c.State == 1 {
		clearBytes = raw // everything on the wire is visible to an observer (as ciphertext)
	}
	lowerAll := func(b []byte) []byte { return bytes.ToLower(b) }
	visible := lowerAll(clearBytes)
	logical := lowerAll(plain)

	for i, p := range c.Private {
		if !inserted[i] {
			continue
		}
		v1, v2 := refPrivate(p.Name)
		if !v1 && !v2 {
			r.viol = "harness: generated a non-private name " + p.Name
			return r
		}
		cn := strings.ToLower(canary(c, i))
		ln := strings.ToLower(p.Name)
		mustWithhold := !optIn || (v2 && oldPeer)
		inLogical := bytes.Contains(logical, []byte(cn))
		nameInLogical := bytes.Contains(logical, []byte(ln+" ="))
		nameVisible := bytes.Contains(visible, []byte(ln))
		if c.Refs {
			// a public attribute of this ad mentions the private NAME in its own expression (the caller's
			// public data); what must not appear is the private attribute itself: "name = value"
			nameInLogical = bytes.Contains(logical, []byte(ln+" = "))
			nameVisible = bytes.Contains(visible, []byte(ln+" = "))
		}
		if mustWithhold {
			if inLogical || bytes.Contains(visible, []byte(cn)) {
				r.viol = fmt.Sprintf("value of private attribute %s was serialised although it must be withheld (optIn=%v oldPeer=%v v2=%v)", p.Name, optIn, oldPeer, v2)
				return r
			}
			if nameInLogical || nameVisible {
				r.viol = fmt.Sprintf("name of private attribute %s occurs in the emitted bytes although it must be withheld (optIn=%v oldPeer=%v v2=%v)", p.Name, optIn, oldPeer, v2)
				return r
			}
			continue
		}
		// opted in
		if c.State == 2 {
			r.nontrivial = true
			if bytes.Contains(visible, []byte(cn)) {
				r.viol = fmt.Sprintf("private value of %s travelled in the clear on a stream that holds a key", p.Name)
				return r
			}
		}
		expectSent := c.Whitelist == 0 || (c.Whitelist == 2 && wlPrivate[p.Name])
		if c.Whitelist == 1 {
			if inLogical {
				r.viol = fmt.Sprintf("private attribute %s sent although the whitelist does not name it", p.Name)
				return r
			}
			continue
		}
		if expectSent && !inLogical {
			r.viol = fmt.Sprintf("private attribute %s did not arrive although the caller opted in (state %d)", p.Name, c.State)
			return r
		}
	}
	// public attributes always pass the privacy filter
	if c.Whitelist != 3 {
		for i := 0; i < c.Public; i++ {
			if !bytes.Contains(logical, []byte(strings.ToLower(fmt.Sprintf("Pub%d =", i)))) {
				r.viol = fmt.Sprintf("public attribute Pub%d was not sent", i)
				return r
			}
		}
	}
	// peer reconstruction (the receivers read MyType/TargetType, so only without NoTypes)
	// An ad sent without type names can only be read back when nothing follows it in the message, and only where
	// strings travel in the plaintext layout (no key, or keyed but not encrypting - the state the statement is
	// about): there the reader takes the two absent type names at the end of the message as empty. On an
	// encrypting stream the library has no reader for such an ad, so nothing is demanded of it.
	if noTypes && (!c.Last || c.State == 1) {
		return r
	}
	for ri := 0; ri < 2; ri++ {
		if ri == 1 {
			// second receiver: fresh stream over the same bytes
			cb = kit.NewMemConn()
			B = stream.NewStream(cb)
			if c.State != 0 {
				_ = B.SetSymmetricKey(key)
				if c.State == 2 {
					B.SetCryptoMode(false)
				}
			}
		}
		cb.Feed(raw)
		m := message.NewMessageFromStream(B)
		var text string
		if ri == 0 {
			got, err := m.GetClassAd(kit.Bg)
			if err != nil {
				r.viol = fmt.Sprintf("GetClassAd cannot reassemble the ad (state %d, optIn %v): %v", c.State, optIn, err)
				return r
			}
			text = got.StringWithPrivate()
		} else {
			var err error
			text, err = m.GetClassAdRaw(kit.Bg)
			if err != nil {
				r.viol = fmt.Sprintf("GetClassAdRaw cannot reassemble the ad (state %d, optIn %v): %v", c.State, optIn, err)
				return r
			}
		}
		if !c.Last {
			if v, err := m.GetInt(kit.Bg); err != nil || v != sentinel {
				r.viol = fmt.Sprintf("receiver %d lost framing after the ad (read %d, err %v)", ri, v, err)
				return r
			}
		}
		if _, err := m.GetChar(kit.Bg); err != io.EOF {
			r.viol = fmt.Sprintf("receiver %d: message does not end after the ad/sentinel: %v", ri, err)
			return r
		}
		lt := strings.ToLower(text)
		for i, p := range c.Private {
			if !inserted[i] {
				continue
			}
			_, v2 := refPrivate(p.Name)
			sent := optIn && !(v2 && oldPeer) && (c.Whitelist == 0 || c.Whitelist == 2)
			has := strings.Contains(lt, strings.ToLower(canary(c, i)))
			if sent && !has {
				r.viol = fmt.Sprintf("receiver %d: private attribute %s missing from the reassembled ad", ri, p.Name)
				return r
			}
			if !sent && c.Whitelist != 3 && has {
				r.viol = fmt.Sprintf("receiver %d: private attribute %s present although it must have been withheld", ri, p.Name)
				return r
			}
		}
	}
	return r
}

func containsAttr(l []PAttr, p PAttr) bool {
	for _, x := range l {
		if x == p {
			return true
		}
	}
	return false
}

func genName(t *rapid.T) string {
	var base string
	if rapid.IntRange(0, 2).Draw(t, "kind") == 0 {
		base = "_condor_priv" + rapid.SampledFrom([]string{"", "_x", "Key", "ATE", "_claim_1", "z9"}).Draw(t, "suffix")
	} else {
		base = rapid.SampledFrom(fixedPrivate).Draw(t, "fixed")
	}
	switch rapid.IntRange(0, 3).Draw(t, "casing") {
	case 0:
		return base
	case 1:
		return strings.ToLower(base)
	case 2:
		return strings.ToUpper(base)
	}
	return caseMask(base, rapid.Uint32().Draw(t, "mask"))
}

func genCase(t *rapid.T) Case {
	c := Case{Public: rapid.IntRange(0, 6).Draw(t, "public"), Options: rapid.IntRange(0, 63).Draw(t, "options"),
		Whitelist: rapid.IntRange(0, 3).Draw(t, "whitelist"), Refs: rapid.IntRange(0, 2).Draw(t, "refs") == 0, Version: rapid.IntRange(0, 4).Draw(t, "version"),
		State: rapid.IntRange(0, 2).Draw(t, "state"), Salt: rapid.Uint32().Draw(t, "salt"), Last: rapid.Bool().Draw(t, "last"), Early: rapid.Bool().Draw(t, "early")}
	if rapid.Bool().Draw(t, "forceOptIn") {
		c.Options |= int(message.PutClassAdIncludePrivate)
		c.Options &^= int(message.PutClassAdNoPrivate)
	}
	n := rapid.IntRange(1, 5).Draw(t, "nprivate")
	for i := 0; i < n; i++ {
		c.Private = append(c.Private, PAttr{Name: genName(t), Nested: rapid.IntRange(0, 3).Draw(t, "nested")})
	}
	return c
}

func record(c Case, r res) {
	k := ""
	if r.nontrivial {
		b, _ := json.Marshal(c)
		k = string(b)
	}
	optIn := c.Options&int(message.PutClassAdIncludePrivate) != 0 && c.Options&int(message.PutClassAdNoPrivate) == 0
	ev.Case(fmt.Sprintf("state%d/optIn=%v/wl%d", c.State, optIn, c.Whitelist), k)
}

func TestC09Ads(t *testing.T) {
	rapid.Check(t, func(t *rapid.T) {
		c := genCase(t)
		r := runCase(c)
		record(c, r)
		ev.Sample("ad", c)
		if r.viol != "" {
			js, _ := json.Marshal(c)
			t.Fatalf("C09 violated: %s\ncase: %s", r.viol, js)
		}
	})
}

// TestC09Exhaustive: every case mask of the short fixed names and of the
// prefix, and the full option-bit x version x state product for each fixed name.
func TestC09Exhaustive(t *testing.T) {
	bad := 0
	report := func(c Case, r res) {
		if r.viol != "" && bad < 5 {
			bad++
			kit.Violation("C09", r.viol, c)
			t.Errorf("C09 violated: %s", r.viol)
		}
	}
	for _, base := range []string{"ClaimId", "ClaimIds", "_condor_priv", "_condor_privX"} {
		letters := 0
		for _, ch := range base {
			if (ch >= 'a' && ch <= 'z') || (ch >= 'A' && ch <= 'Z') {
				letters++
			}
		}
		for mask := uint32(0); mask < 1<<uint(letters); mask++ {
			for state := 0; state < 3; state++ {
				for _, opt := range []int{0, int(message.PutClassAdNoPrivate), int(message.PutClassAdIncludePrivate) | int(message.PutClassAdNoPrivate)} {
					c := Case{Public: 1, Private: []PAttr{{Name: caseMask(base, mask), Nested: int(mask % 4)}}, Options: opt, State: state, Salt: mask}
					r := runCase(c)
					record(c, r)
					report(c, r)
				}
			}
		}
	}
	for _, name := range append(append([]string{}, fixedPrivate...), "_condor_priv_secret") {
		for opt := 0; opt < 64; opt++ {
			for ver := 0; ver < 5; ver++ {
				for state := 0; state < 3; state++ {
					for wl := 0; wl < 4; wl++ {
						c := Case{Public: 2, Private: []PAttr{{Name: name}}, Options: opt, Version: ver, State: state, Whitelist: wl, Refs: (opt+ver+wl)%2 == 1, Salt: uint32(opt*100 + ver), Last: (opt/2+ver+state+wl)%2 == 1, Early: (opt/4+ver+state)%2 == 1}
						r := runCase(c)
						record(c, r)
						report(c, r)
						if opt == 32 && ver == 1 && state == 2 && wl == 0 {
							ev.Sample("exhaustive", c)
						}
					}
				}
			}
		}
	}
	ev.Exhaustive("all case masks of ClaimId, ClaimIds, _condor_priv, _condor_privX x 3 states x 3 non-opt-in option sets; all 64 option sets x 5 peer versions x 3 states x 4 whitelist kinds for each of the 7 canonical private names")
}

func TestC09Replay(t *testing.T) {
	var c Case
	ok, err := kit.ReplayCase(&c)
	if !ok {
		t.Skip("no VERIF_REPLAY")
	}
	if err != nil {
		t.Fatal(err)
	}
	if r := runCase(c); r.viol != "" {
		t.Fatalf("C09 violated: %s", r.viol)
	}
}
