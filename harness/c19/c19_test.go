// Package c19 decides property C19: cancellation and deadlines always unblock
// stream operations and handshakes, wherever the peer stalls.
package c19

import (
	"context"
	"encoding/json"
	"errors"
	"fmt"
	"net"
	"os"
	"path/filepath"
	"sync"
	"sync/atomic"
	"testing"
	"time"

	"github.com/bbockelm/cedar/message"
	"github.com/bbockelm/cedar/security"
	"github.com/bbockelm/cedar/server"
	"github.com/bbockelm/cedar/stream"

	"verifharness/kit"
)

func TestMain(m *testing.M) { kit.Main(m) }

var ev = kit.Ev("C19")

func init() {
	ev.Rule("the endpoint under test (client or server Authenticator, or a plain Stream doing multi-frame typed sends and reads, PutFile / GetFile, PutSecret / GetSecret, StartMessageRead / ReadMessageBytes) talks to an honest cedar peer through a wrapper that counts its Read and Write calls; " +
		"a baseline run yields the number N of calls of each kind; then for EVERY k in [0,N) and each kind the k-th call blocks forever and, once the wrapper signals the stall, the context is cancelled (variant: a deadline that fires during the stall); " +
		"further variants: cancelled before the start, cancelled after completion, context.Background(); shapes: no authentication, CLAIMTOBE, FS, TOKEN, SSL (harness certificate), resumed session, three refused handshakes (DENIED for encryption, no common method, SID_NOT_FOUND), plain message exchange; " +
		"oracle: from the cancellation the call returns within 2 s (re-run twice before it counts) with a non-nil error (the context's own error for plain stream operations) and the connection has been closed (Close itself, also where the transport offers CloseRead/CloseWrite: half the stall points run over such a transport; a third over a transport installed with SetConnection after the stream was built around another one); " +
		"cancel-before: immediate error without I/O; cancel-after and Background: same outcome as the baseline; non-trivial = k > 0; distinct by (shape, role, kind, k, variant)")
	ev.Assume("the 2 s bound only separates 'returns' from 'never returns' (typical return is well under a millisecond)")
}

// stallConn blocks the k-th Read or Write until Close.
type stallConn struct {
	*kit.BufConn
	mu         sync.Mutex
	kind       string // "read", "write", ""
	k          int
	reads      int
	writes     int
	stalled    chan struct{}
	released   chan struct{}
	closeCalls int
	halfCloses int
	once       sync.Once
	sonce      sync.Once
	dribble    int // >0: every Read hands out at most this many bytes
}

func newStall(c *kit.BufConn, kind string, k int) *stallConn {
	return &stallConn{BufConn: c, kind: kind, k: k, stalled: make(chan struct{}), released: make(chan struct{})}
}

func (s *stallConn) Read(p []byte) (int, error) {
	s.mu.Lock()
	i := s.reads
	s.reads++
	s.mu.Unlock()
	if s.kind == "read" && i == s.k {
		s.sonce.Do(func() { close(s.stalled) })
		<-s.released
		return 0, net.ErrClosed
	}
	if s.dribble > 0 && len(p) > s.dribble {
		p = p[:s.dribble] // the peer's bytes arrive a few at a time, as over a slow link
	}
	return s.BufConn.Read(p)
}

func (s *stallConn) Write(p []byte) (int, error) {
	s.mu.Lock()
	i := s.writes
	s.writes++
	s.mu.Unlock()
	if s.kind == "write" && i == s.k {
		s.sonce.Do(func() { close(s.stalled) })
		<-s.released
		return 0, net.ErrClosed
	}
	return s.BufConn.Write(p)
}

func (s *stallConn) Close() error {
	s.mu.Lock()
	s.closeCalls++
	s.mu.Unlock()
	s.once.Do(func() { close(s.released) })
	return s.BufConn.Close()
}

// halfConn is the same transport with separable halves, as a TCP or Unix socket has (CloseRead/CloseWrite):
// shutting one half wakes a blocked call on it, but the connection is only CLOSED by Close.
type halfConn struct {
	*stallConn
}

func (h halfConn) CloseRead() error {
	h.mu.Lock()
	h.halfCloses++
	h.mu.Unlock()
	if h.kind == "read" {
		h.once.Do(func() { close(h.released) })
	}
	return nil
}

func (h halfConn) CloseWrite() error {
	h.mu.Lock()
	h.halfCloses++
	h.mu.Unlock()
	if h.kind == "write" {
		h.once.Do(func() { close(h.released) })
	}
	return nil
}

type Case struct {
	// Half: the endpoint's transport has separable read and write halves (see halfConn)
	Half    bool   `json:"half,omitempty"`
	// Swap: the stream was built around another connection first and got the transport it really uses through
	// SetConnection (what the TLS upgrade does): it is THAT connection a cancellation has to close
	Swap bool `json:"swap,omitempty"`
	// Timeout: SetTimeout(30 s) was called on the stream at some earlier point (a socket-level time limit, far
	// away): cancellation must still interrupt at once
	Timeout bool `json:"timeout,omitempty"`
	Shape   string `json:"shape"`
	Role    string `json:"role"` // endpoint under test: client | server | sender | receiver
	Kind    string `json:"kind"` // read | write | ""
	K       int    `json:"k"`
	Variant string `json:"variant"` // cancel | deadline | before | after | background | baseline
}

var tokenEnv = kit.NewTokenEnv()
var sslEnv, _ = kit.NewSSLEnv()

func configs(shape string) (*security.SecurityConfig, *security.SecurityConfig) {
	var m security.AuthMethod
	lvl := security.SecurityRequired
	switch shape {
	case "noauth":
		m, lvl = security.AuthClaimToBe, security.SecurityNever
	case "claimtobe", "resumed":
		m = security.AuthClaimToBe
	case "fs":
		m = security.AuthFS
	case "token":
		m = security.AuthToken
	case "ssl":
		m = security.AuthSSL
	case "denied-enc", "denied-auth", "resume-unknown":
		m = security.AuthClaimToBe
	}
	cc := kit.BaseConfig(lvl, security.SecurityRequired, m)
	sl := security.SecurityRequired
	if shape == "noauth" {
		sl = security.SecurityOptional
	}
	sc := kit.BaseConfig(sl, security.SecurityRequired, m)
	sc.SessionCache = nil
	cc.PeerName = "<c19-peer-" + shape + ">"
	if shape == "token" {
		tokenEnv.Apply(cc, sc)
	}
	if shape == "ssl" && sslEnv != nil {
		sslEnv.Apply(cc, sc)
	}
	switch shape {
	case "denied-enc": // the server must encrypt, the client cannot: the server answers DENIED
		cc.Encryption, cc.CryptoMethods = security.SecurityNever, nil
	case "denied-auth": // no method in common although both require authentication
		cc.AuthMethods = []security.AuthMethod{security.AuthFS}
	}
	return cc, sc
}

type outcome struct {
	err        error
	ok         bool
	elapsed    time.Duration // from cancellation to return
	returned   bool
	reads      int
	writes     int
	closed     bool
	stalledHit bool
	auth, enc  bool
	method     string
	payloadOK  bool
	ctxErr     error
}

const payloadSize = 40000

// runCase executes the endpoint under test through a stallConn against an honest peer.
func runCase(c Case) outcome {
	var o outcome
	pa, pb := kit.NextPorts()
	cc, sc := kit.NewBufPipe(pa, pb)
	var endConn, peerConn *kit.BufConn
	if c.Role == "client" || c.Role == "sender" || c.Role == "filesender" || c.Role == "secretsender" {
		endConn, peerConn = cc, sc
	} else {
		endConn, peerConn = sc, cc
	}
	kind := c.Kind
	if c.Variant == "baseline" || c.Variant == "after" || c.Variant == "background" || c.Variant == "before" || c.Variant == "background-dribble" || c.Variant == "cancellable-dribble" {
		kind = ""
	}
	st := newStall(endConn, kind, c.K)
	if c.Variant == "background-dribble" || c.Variant == "cancellable-dribble" {
		st.dribble = 2
	}
	ccfg, scfg := configs(c.Shape)
	if c.Shape == "resumed" || c.Shape == "resume-unknown" {
		r := kit.Handshake(ccfg, scfg, 3*time.Second)
		if r.CErr != nil || r.SErr != nil {
			o.err = fmt.Errorf("harness: cannot establish the session to resume: %v / %v", r.CErr, r.SErr)
			return o
		}
		_ = r.CConn.Close()
		_ = r.SConn.Close()
		if c.Shape == "resume-unknown" { // the server has forgotten THIS session (other cases run beside this one): it answers SID_NOT_FOUND
			security.InvalidateSession(r.SNeg.SessionId)
		}
	}
	// honest peer
	peerCtx, peerCancel := context.WithTimeout(context.Background(), 6*time.Second)
	defer peerCancel()
	var pwg sync.WaitGroup
	pwg.Add(1)
	go func() {
		defer pwg.Done()
		ps := stream.NewStream(peerConn)
		switch c.Role {
		case "client":
			if _, err := security.NewAuthenticator(scfg, ps).ServerHandshake(peerCtx); err != nil {
				_ = peerConn.Close()
			}
		case "server":
			if _, err := security.NewAuthenticator(ccfg, ps).ClientHandshake(peerCtx); err != nil {
				_ = peerConn.Close()
			}
		case "serveconn": // peer: handshake for the command, then reads the handler's reply
			if _, err := security.NewAuthenticator(ccfg, ps).ClientHandshake(peerCtx); err != nil {
				_ = peerConn.Close()
			} else {
				_, _ = ps.ReceiveCompleteMessage(peerCtx)
			}
		case "sender": // peer receives and acknowledges
			m := message.NewMessageFromStream(ps)
			if b, err := m.GetBytes(peerCtx, payloadSize); err == nil && len(b) == payloadSize {
				_, _ = m.GetString(peerCtx)
				_ = ps.SendMessage(peerCtx, []byte("ack"))
			}
		case "receiver": // peer sends a multi-frame message then waits
			m := message.NewMessageForStream(ps)
			_ = m.PutBytes(peerCtx, kit.Pattern(payloadSize, 5))
			_ = m.PutString(peerCtx, "tail")
			_ = m.FinishMessage(peerCtx)
			_, _ = ps.ReceiveCompleteMessage(peerCtx)
		case "filesender": // peer receives the file and acknowledges
			if _, err := ps.GetFile(peerCtx, scratchFile("peer-got")); err == nil {
				_ = ps.SendMessage(peerCtx, []byte("ack"))
			}
		case "filereceiver": // peer sends the file then waits
			_, _ = ps.PutFile(peerCtx, sourceFile())
			_, _ = ps.ReceiveCompleteMessage(peerCtx)
		case "secretsender": // peer takes three secrets and answers with one
			for i := 0; i < 3; i++ {
				if _, err := ps.GetSecret(peerCtx); err != nil {
					return
				}
			}
			_ = ps.PutSecret(peerCtx, "reply-secret")
		case "bytesreader": // peer sends one message as four partial frames and a final one, then waits
			for i := 0; i < 4; i++ {
				_ = ps.SendPartialMessage(peerCtx, kit.Pattern(3000, uint32(i)))
			}
			_ = ps.SendMessage(peerCtx, kit.Pattern(500, 9))
			_, _ = ps.ReceiveCompleteMessage(peerCtx)
		}
	}()
	// context of the endpoint under test
	var ctx context.Context
	cancel := func() {}
	switch c.Variant {
	case "background", "baseline", "background-dribble":
		ctx = context.Background()
	case "deadline":
		ctx, cancel = context.WithTimeout(context.Background(), 60*time.Millisecond)
	case "cancel-dl": // a context that also carries a (far) deadline, cancelled explicitly
		ctx, cancel = context.WithTimeout(context.Background(), 45*time.Second)
	case "cancel-cause": // cancelled with a custom cause: the context's own error is still context.Canceled
		c2, cc := context.WithCancelCause(context.Background())
		ctx, cancel = c2, func() { cc(errors.New("daemon shutting down")) }
	case "deadline-cause":
		ctx, cancel = context.WithTimeoutCause(context.Background(), 60*time.Millisecond, errors.New("request budget used up"))
	case "parent-cancel": // the parent of a deadline-carrying, value-carrying child is cancelled
		parent, pcancel := context.WithCancel(context.Background())
		child, ccancel := context.WithTimeout(context.WithValue(parent, ctxKey{}, 1), 45*time.Second)
		ctx, cancel = child, func() { pcancel(); ccancel() }
	default:
		ctx, cancel = context.WithCancel(context.Background())
	}
	defer cancel()
	if c.Variant == "before" {
		cancel()
	}
	done := make(chan struct{})
	go func() {
		defer close(done)
		var econn net.Conn = st
		if c.Half {
			econn = halfConn{st}
		}
		es := stream.NewStream(econn)
		if c.Swap {
			first, other := net.Pipe()
			_ = other.Close()
			es = stream.NewStream(first)
			es.SetConnection(econn)
		}
		if c.Timeout {
			_ = es.SetTimeout(30 * time.Second)
		}
		switch c.Role {
		case "serveconn":
			// the command dispatcher owns the connection it is given: it reads the command, runs the handshake and
			// the handler, and whatever way it ends - also on a context that is already dead - the connection is closed
			srv := server.New(scfg)
			srv.Handle(ccfg.Command, func(hctx context.Context, hc *server.Conn) error {
				m := message.NewMessageForStream(hc.Stream)
				_ = m.PutString(hctx, "handler-reply")
				return m.FinishMessage(hctx)
			})
			o.err = srv.ServeConn(ctx, econn)
		case "client":
			neg, err := security.NewAuthenticator(ccfg, es).ClientHandshake(ctx)
			o.err = err
			if err == nil {
				o.auth, o.enc, o.method = neg.Authentication, neg.Encryption, string(neg.NegotiatedAuth)
			}
		case "server":
			neg, err := security.NewAuthenticator(scfg, es).ServerHandshake(ctx)
			o.err = err
			if err == nil {
				o.auth, o.enc, o.method = neg.Authentication, neg.Encryption, string(neg.NegotiatedAuth)
			}
		case "sender":
			m := message.NewMessageForStream(es)
			err := m.PutBytes(ctx, kit.Pattern(payloadSize, 5))
			if err == nil {
				err = m.PutString(ctx, "tail")
			}
			if err == nil {
				err = m.FinishMessage(ctx)
			}
			if err == nil {
				var ack []byte
				ack, err = es.ReceiveCompleteMessage(ctx)
				o.payloadOK = string(ack) == "ack"
			}
			o.err = err
		case "receiver":
			m := message.NewMessageFromStream(es)
			b, err := m.GetBytes(ctx, payloadSize)
			if err == nil {
				var s string
				s, err = m.GetString(ctx)
				o.payloadOK = len(b) == payloadSize && s == "tail"
			}
			if err == nil {
				err = es.SendMessage(ctx, []byte("done"))
			}
			o.err = err
		case "filesender":
			_, err := es.PutFile(ctx, sourceFile())
			if err == nil {
				var ack []byte
				ack, err = es.ReceiveCompleteMessage(ctx)
				o.payloadOK = string(ack) == "ack"
			}
			o.err = err
		case "filereceiver":
			n, err := es.GetFile(ctx, scratchFile("end-got"))
			o.payloadOK = n == fileSize
			if err == nil {
				err = es.SendMessage(ctx, []byte("done"))
			}
			o.err = err
		case "secretsender":
			var err error
			for i := 0; i < 3 && err == nil; i++ {
				err = es.PutSecret(ctx, fmt.Sprintf("secret-%d", i))
			}
			if err == nil {
				var r string
				r, err = es.GetSecret(ctx)
				o.payloadOK = r == "reply-secret"
			}
			o.err = err
		case "bytesreader":
			err := es.StartMessageRead(ctx)
			total := 0
			buf := make([]byte, 1024)
			for err == nil && total < 12500 {
				var n int
				n, err = es.ReadMessageBytes(ctx, buf)
				total += n
				if n == 0 && err == nil {
					err = fmt.Errorf("ReadMessageBytes returned nothing")
				}
			}
			if err == nil {
				err = es.EndMessageRead()
			}
			o.payloadOK = total == 12500
			if err == nil {
				err = es.SendMessage(ctx, []byte("done"))
			}
			o.err = err
		}
		o.ok = o.err == nil
	}()
	var cancelledAt time.Time
	switch c.Variant {
	case "cancel", "cancel-dl", "parent-cancel", "cancel-cause":
		select {
		case <-st.stalled:
			o.stalledHit = true
			cancelledAt = time.Now()
			cancel()
		case <-done:
		case <-time.After(4 * time.Second):
			cancelledAt = time.Now()
			cancel()
		}
	case "deadline", "deadline-cause":
		select {
		case <-st.stalled:
			o.stalledHit = true
		case <-done:
		case <-time.After(4 * time.Second):
		}
		dl, _ := ctx.Deadline()
		cancelledAt = dl
	case "before":
		cancelledAt = time.Now()
	}
	select {
	case <-done:
		o.returned = true
		if !cancelledAt.IsZero() {
			o.elapsed = time.Since(cancelledAt)
		}
	case <-time.After(6 * time.Second):
		o.returned = false
	}
	if c.Variant == "after" && o.returned {
		cancel() // cancelling after completion must change nothing
	}
	o.ctxErr = ctx.Err()
	st.mu.Lock()
	o.reads, o.writes, o.closed = st.reads, st.writes, st.closeCalls > 0
	st.mu.Unlock()
	_ = st.Close()
	_ = peerConn.Close()
	pwg.Wait()
	return o
}

type ctxKey struct{}

func stallVariant(v string) bool {
	switch v {
	case "cancel", "deadline", "cancel-dl", "parent-cancel", "cancel-cause", "deadline-cause":
		return true
	}
	return false
}

func plain(role string) bool {
	switch role {
	case "sender", "receiver", "filesender", "filereceiver", "secretsender", "bytesreader":
		return true
	}
	return false
}

const fileSize = 150000

var (
	srcOnce sync.Once
	srcPath string
	scratchN int64
)

// sourceFile is a 150000-byte file the file-transfer roles send.
func sourceFile() string {
	srcOnce.Do(func() {
		f, err := os.CreateTemp("", "c19src")
		if err != nil {
			panic(err)
		}
		_, _ = f.Write(kit.Pattern(fileSize, 77))
		_ = f.Close()
		srcPath = f.Name()
	})
	return srcPath
}

func scratchFile(tag string) string {
	return filepath.Join(os.TempDir(), fmt.Sprintf("c19-%s-%d-%d", tag, os.Getpid(), atomic.AddInt64(&scratchN, 1)%64))
}

func judge(c Case, o outcome, base outcome) string {
	if o.err != nil && !o.returned && o.reads == 0 && o.writes == 0 && c.Variant != "before" {
		// harness-level failure (e.g. could not establish the session)
	}
	switch c.Variant {
	case "cancel", "deadline", "cancel-dl", "parent-cancel", "cancel-cause", "deadline-cause":
		if !o.returned {
			return fmt.Sprintf("the call never returned after its context was cancelled (stalled at %s #%d)", c.Kind, c.K)
		}
		if !o.stalledHit {
			return "" // the exchange ended before reaching call k (non-deterministic I/O count): nothing to judge
		}
		if o.elapsed > 2*time.Second {
			return fmt.Sprintf("the call returned %v after the cancellation (stalled at %s #%d)", o.elapsed, c.Kind, c.K)
		}
		if o.err == nil {
			return fmt.Sprintf("the call returned success although its %s #%d never completed and the context was cancelled", c.Kind, c.K)
		}
		if plain(c.Role) && !errors.Is(o.err, o.ctxErr) {
			return fmt.Sprintf("plain stream operation returned %q, not the context's error %v", o.err, o.ctxErr)
		}
		if !o.closed {
			return "the connection was not closed after the cancellation"
		}
	case "before":
		if !o.returned || o.err == nil {
			return fmt.Sprintf("a call started with an already cancelled context did not fail (returned=%v err=%v)", o.returned, o.err)
		}
		if o.reads+o.writes != 0 {
			return fmt.Sprintf("a call started with an already cancelled context performed I/O (%d reads, %d writes)", o.reads, o.writes)
		}
		if plain(c.Role) && !errors.Is(o.err, context.Canceled) {
			return fmt.Sprintf("plain stream operation returned %q, not context.Canceled", o.err)
		}
		if c.Role == "serveconn" && !o.closed {
			return "ServeConn returned on an already cancelled context and left the connection it owns open"
		}
	case "after", "background", "background-dribble", "cancellable-dribble":
		if !o.returned {
			return "the call did not return although nothing stalled"
		}
		if o.ok != base.ok || o.auth != base.auth || o.enc != base.enc || o.method != base.method || o.payloadOK != base.payloadOK {
			return fmt.Sprintf("outcome differs from the baseline: ok=%v/%v auth=%v/%v enc=%v/%v method=%s/%s payload=%v/%v (err %v)",
				o.ok, base.ok, o.auth, base.auth, o.enc, base.enc, o.method, base.method, o.payloadOK, base.payloadOK, o.err)
		}
	}
	return ""
}

var shapes = []string{"noauth", "claimtobe", "fs", "token", "ssl", "resumed", "denied-enc", "denied-auth", "resume-unknown"}

// failing shapes: the honest baseline ends in an error (a refusal is sent and read); cancellation must still work at every step of it
var failingShape = map[string]bool{"ssl": true, "denied-enc": true, "denied-auth": true, "resume-unknown": true}

func TestC19Stalls(t *testing.T) {
	type job struct {
		c    Case
		base outcome
	}
	var jobs []job
	type sr struct{ shape, role string }
	var pairs []sr
	for _, s := range shapes {
		pairs = append(pairs, sr{s, "client"}, sr{s, "server"})
	}
	pairs = append(pairs, sr{"noauth", "serveconn"}, sr{"claimtobe", "serveconn"})
	pairs = append(pairs, sr{"plain", "sender"}, sr{"plain", "receiver"}, sr{"plain", "filesender"}, sr{"plain", "filereceiver"}, sr{"plain", "secretsender"}, sr{"plain", "bytesreader"})
	for _, p := range pairs {
		base := runCase(Case{Shape: p.shape, Role: p.role, Variant: "baseline"})
		ev.Case("baseline:"+p.shape+"/"+p.role, "")
		if !base.returned {
			kit.Violation("C19", "baseline run with context.Background() did not return", Case{Shape: p.shape, Role: p.role, Variant: "baseline"})
			t.Errorf("C19 violated: baseline did not return (%s/%s)", p.shape, p.role)
			continue
		}
		if !failingShape[p.shape] && !base.ok {
			kit.Violation("C19", fmt.Sprintf("baseline run failed: %v", base.err), Case{Shape: p.shape, Role: p.role, Variant: "baseline"})
			t.Errorf("C19 violated: baseline failed (%s/%s): %v", p.shape, p.role, base.err)
			continue
		}
		ev.Sample("baseline", map[string]any{"shape": p.shape, "role": p.role, "reads": base.reads, "writes": base.writes, "succeeds": base.ok})
		// "-dribble": the peer's bytes arrive two at a time (every header and body split across reads), under a
		// context that can never be cancelled and under one that could be but is not
		for _, v := range []string{"before", "after", "background", "background-dribble", "cancellable-dribble"} {
			jobs = append(jobs, job{Case{Shape: p.shape, Role: p.role, Variant: v}, base})
		}
		variants := []string{"cancel", "deadline", "cancel-dl", "parent-cancel"} // cheap enough
		if plain(p.role) { // which error comes back is only specified for plain stream operations
			variants = append(variants, "cancel-cause", "deadline-cause")
		}
		for _, v := range variants {
			// every other stall point runs over a transport with separable halves (a TCP-like socket)
			for k := 0; k < base.reads; k++ {
				jobs = append(jobs, job{Case{Shape: p.shape, Role: p.role, Kind: "read", K: k, Variant: v, Half: (k+len(v))%2 == 0, Swap: (k+len(v))%3 == 0, Timeout: (k+len(v))%4 == 1}, base})
			}
			for k := 0; k < base.writes; k++ {
				jobs = append(jobs, job{Case{Shape: p.shape, Role: p.role, Kind: "write", K: k, Variant: v, Half: (k+len(v))%2 == 1, Swap: (k+len(v))%3 == 1, Timeout: (k+len(v))%4 == 2}, base})
			}
		}
	}
	var mu sync.Mutex
	bad := 0
	sem := make(chan struct{}, 12)
	var wg sync.WaitGroup
	for i, j := range jobs {
		if i%kit.NShards() != kit.Shard() {
			continue
		}
		wg.Add(1)
		sem <- struct{}{}
		go func(j job) {
			defer wg.Done()
			defer func() { <-sem }()
			o := runCase(j.c)
			v := judge(j.c, o, j.base)
			if v != "" && stallVariant(j.c.Variant) {
				// re-run twice before a timing verdict counts
				for r := 0; r < 2 && v != ""; r++ {
					o = runCase(j.c)
					v = judge(j.c, o, j.base)
				}
			}
			k := ""
			if j.c.K > 0 && o.stalledHit {
				b, _ := json.Marshal(j.c)
				k = string(b)
			}
			ev.Case(j.c.Shape+"/"+j.c.Role+"/"+j.c.Variant, k)
			if stallVariant(j.c.Variant) && !o.stalledHit {
				ev.Class("stall-point-not-reached(inconclusive)")
			}
			if v != "" {
				mu.Lock()
				if bad < 6 {
					kit.Violation("C19", v, j.c)
					t.Errorf("C19 violated: %s (%+v)", v, j.c)
				}
				bad++
				mu.Unlock()
			}
		}(j)
	}
	wg.Wait()
	ev.Exhaustive("every Read index and every Write index of the baseline run of each (shape, role): 9 handshake shapes (6 completing, 3 ending in a refusal: DENIED for encryption, no common method, SID_NOT_FOUND) x {client, server} + plain {typed sender, typed receiver, PutFile, GetFile, PutSecret/GetSecret, StartMessageRead/ReadMessageBytes}; at every index: a cancel, an expiring deadline, an explicit cancel of a context that carries a far deadline, and a cancel of the parent of a deadline- and value-carrying child")
}

func TestC19Replay(t *testing.T) {
	var c Case
	ok, err := kit.ReplayCase(&c)
	if !ok {
		t.Skip("no VERIF_REPLAY")
	}
	if err != nil {
		t.Fatal(err)
	}
	base := runCase(Case{Shape: c.Shape, Role: c.Role, Variant: "baseline"})
	if v := judge(c, runCase(c), base); v != "" {
		t.Fatalf("C19 violated: %s", v)
	}
}
