// Package c12 decides property C12: protected frames follow the documented
// AES-256-GCM wire format byte for byte, no (key, nonce) pair is used twice and
// a stream refuses to send rather than let its counter wrap.
package c12

import (
	"bytes"
	"encoding/binary"
	"encoding/json"
	"fmt"
	"testing"

	"github.com/bbockelm/cedar/stream"
	"pgregory.net/rapid"

	"verifharness/kit"
)

func TestMain(m *testing.M) { kit.Main(m) }

var ev = kit.Ev("C12")

func init() {
	ev.Rule("a history = cleartext prefix (0-3 messages per direction, including unused directions) + key installation " +
		"(SetSymmetricKey, or NewStreamWithCryptoState from a harness-built blob with counters 0,1,2^31,2^32-3..2^32-1 and base-IV leading word near 2^32) " +
		"+ 1-40 operations: sends (sizes 0,1,15,16,17,4KiB+-1,70KiB; both directions interleaved; single/multi-frame; PutSecret; crypto mode toggles; writes failing in mid-frame; the same key installed again on the same streams = a new session), 1-3 sessions per key; " +
		"oracle: the independent codec predicts EVERY wire byte from the model of what was sent given only the base IV read from the first protected frame; " +
		"all nonces under one key are distinct; counter never wraps; codec-built frames are accepted by the real receiver; " +
		"non-trivial = >=3 protected frames in one direction and traffic in both; distinct by history")
	ev.Assume("AES-256-GCM from the Go standard library is the reference primitive; cedar's random IVs are read from the wire, never predicted")
}

type Op struct {
	Kind  string `json:"k"` // send | secret | mode | failwrite (Sizes[0] = payload, Sizes[1] = bytes of the frame that reach the wire before the write fails)
	Dir   int    `json:"d"`
	Sizes []int  `json:"s,omitempty"`
	On    bool   `json:"on,omitempty"`
}

type Session struct {
	PreAB  [][]int `json:"pre_ab"` // cleartext messages A->B: frame sizes
	PreBA  [][]int `json:"pre_ba"`
	Blob   bool    `json:"blob"`
	CtrA   uint32  `json:"ctr_a"` // A's send counter (blob only)
	CtrB   uint32  `json:"ctr_b"`
	WordA  uint32  `json:"word_a"` // leading word of A's base IV (blob only)
	WordB  uint32  `json:"word_b"`
	Ops    []Op    `json:"ops"`
}

type Case struct {
	Salt     uint32    `json:"salt"`
	Sessions []Session `json:"sessions"`
}

func buildBlob(key []byte, encIV, decIV [16]byte, encCtr, decCtr uint32, sendDig, recvDig []byte) []byte {
	var b bytes.Buffer
	b.WriteString("CDRX")
	_ = binary.Write(&b, binary.BigEndian, uint16(1))
	flags := byte(1) // encrypted
	if encCtr > 0 {
		flags |= 1 << 2
	}
	if decCtr > 0 {
		flags |= 1 << 3
	}
	flags |= 1<<4 | 1<<5
	b.WriteByte(flags)
	b.Write(key)
	b.Write(encIV[:])
	b.Write(decIV[:])
	_ = binary.Write(&b, binary.BigEndian, encCtr)
	_ = binary.Write(&b, binary.BigEndian, decCtr)
	for _, v := range [][]byte{sendDig, recvDig, []byte("<10.0.0.1:9618>")} {
		_ = binary.Write(&b, binary.BigEndian, uint16(len(v)))
		b.Write(v)
	}
	return b.Bytes()
}

type dirModel struct {
	ref       *kit.RefDir
	knowIV    bool
	refused   bool
	exhausted bool
	lost      bool // the frame carrying the IV broke: the direction is not followed any further
	broken    bool // a write failed in mid-frame: the peer can no longer follow this direction
}

type runStats struct {
	protFrames [2]int
	nonces     [][16]byte
	baseIVs    [][16]byte
	rekeys     int
}

// runSession executes one session and returns a violation text or "".
func runSession(key []byte, s Session, salt uint32, st *runStats) string {
	p := kit.NewPair()
	for i, m := range s.PreAB {
		var fr [][]byte
		for j, n := range m {
			fr = append(fr, kit.Pattern(n, salt+uint32(i*8+j)))
		}
		if err := p.ClearExchange(0, fr); err != nil {
			return "cleartext A->B: " + err.Error()
		}
	}
	for i, m := range s.PreBA {
		var fr [][]byte
		for j, n := range m {
			fr = append(fr, kit.Pattern(n, salt+100+uint32(i*8+j)))
		}
		if err := p.ClearExchange(1, fr); err != nil {
			return "cleartext B->A: " + err.Error()
		}
	}
	digAB, digBA := p.ClearAB.Sum(), p.ClearBA.Sum()
	var md [2]dirModel
	for d := 0; d < 2; d++ {
		r, err := kit.NewRefDir(key)
		if err != nil {
			return err.Error()
		}
		md[d].ref = r
	}
	if s.Blob {
		var ivA, ivB [16]byte
		copy(ivA[:], kit.Pattern(16, salt+501))
		copy(ivB[:], kit.Pattern(16, salt+502))
		binary.BigEndian.PutUint32(ivA[:4], s.WordA)
		binary.BigEndian.PutUint32(ivB[:4], s.WordB)
		ivB[15] ^= 0x55 // distinct trailing bytes: the two directions can never collide
		blobA := buildBlob(key, ivA, ivB, s.CtrA, s.CtrB, digAB, digBA)
		blobB := buildBlob(key, ivB, ivA, s.CtrB, s.CtrA, digBA, digAB)
		var err error
		if p.A, err = stream.NewStreamWithCryptoState(p.CA, blobA); err != nil {
			return "import of a well-formed blob failed: " + err.Error()
		}
		if p.B, err = stream.NewStreamWithCryptoState(p.CB, blobB); err != nil {
			return "import of a well-formed blob failed: " + err.Error()
		}
		md[0].ref.BaseIV, md[0].ref.Ctr, md[0].ref.HaveIV, md[0].knowIV = ivA, s.CtrA, true, true
		md[1].ref.BaseIV, md[1].ref.Ctr, md[1].ref.HaveIV, md[1].knowIV = ivB, s.CtrB, true, true
		md[0].ref.AADDone, md[1].ref.AADDone = s.CtrA > 0, s.CtrB > 0
		st.baseIVs = append(st.baseIVs, ivA, ivB)
	} else {
		if err := p.SetKey(key); err != nil {
			return err.Error()
		}
	}
	defer func() {
		st.nonces = append(st.nonces, md[0].ref.Nonces...)
		st.nonces = append(st.nonces, md[1].ref.Nonces...)
	}()
	modeOn := true
	streams := [2]*stream.Stream{p.A, p.B}
	conns := [2]*kit.MemConn{p.CA, p.CB}
	digs := [2][2][]byte{{digAB, digBA}, {digBA, digAB}}
	seq := uint32(0)
	for oi, op := range s.Ops {
		switch op.Kind {
		case "rekey":
			// a new session on the SAME two stream objects: both ends install the key again (the cached secret of
			// a resumed session on a kept connection). SetSymmetricKey documents a fresh random IV and zero
			// counters, so the new session announces a new base IV and no (key, nonce) pair of the old one returns.
			if md[0].broken || md[1].broken || md[0].lost || md[1].lost || md[0].refused || md[1].refused {
				continue
			}
			if err := p.SetKey(key); err != nil {
				return "re-installing the key failed: " + err.Error()
			}
			for d := 0; d < 2; d++ {
				st.nonces = append(st.nonces, md[d].ref.Nonces...)
				r, _ := kit.NewRefDir(key)
				md[d] = dirModel{ref: r}
			}
			modeOn = true
			st.rekeys++
		case "mode":
			modeOn = op.On
			a := p.A.SetCryptoMode(op.On)
			b := p.B.SetCryptoMode(op.On)
			if !a || !b {
				return "SetCryptoMode refused on a keyed stream"
			}
		case "failwrite":
			// a write that fails after part of the frame is on the wire, the stream staying usable: whatever
			// the sender does next in this direction, it may not seal under the nonce this frame consumed
			d := op.Dir
			S, sc := streams[d], conns[d]
			m := &md[d]
			if !modeOn || m.refused || m.lost || m.exhausted || m.ref.Ctr >= 0xfffffffe {
				continue
			}
			pl := kit.Pattern(op.Sizes[0], salt+seq)
			seq++
			w0 := len(sc.WriteLog)
			sc.PartialWrite, sc.PartialWriteArmed = op.Sizes[1], true
			err := S.SendMessage(kit.Bg, pl)
			sc.PartialWriteArmed = false
			if err == nil {
				return fmt.Sprintf("op %d: SendMessage reported success although the connection accepted only part of the frame", oi)
			}
			if !m.knowIV {
				// the frame that carried the IV is the one that broke: nothing later in this direction can be predicted
				m.lost = true
				continue
			}
			want := m.ref.Seal(1, pl, digs[d][0], digs[d][1]) // consumes this frame's counter value in the model
			st.protFrames[d]++
			if w := sc.WriteLog[w0:]; len(w) != 1 || !bytes.HasPrefix(want, w[0]) {
				return fmt.Sprintf("op %d: the bytes that reached the wire before the write failed are not a prefix of the frame the reference codec predicts (counter %d)", oi, m.ref.Ctr-1)
			}
			m.broken = true
		case "send", "secret":
			d := op.Dir
			S, R, sc := streams[d], streams[1-d], conns[d]
			m := &md[d]
			if m.lost {
				continue
			}
			sizes := op.Sizes
			protected := modeOn || op.Kind == "secret"
			w0 := len(sc.WriteLog)
			var whole []byte
			var sendErr error
			var payloads [][]byte
			if op.Kind == "secret" {
				n := 1
				if len(sizes) > 0 {
					n = sizes[0]
				}
				sec := bytes.ReplaceAll(kit.Pattern(n, salt+seq), []byte{0}, []byte{7})
				seq++
				sendErr = S.PutSecret(kit.Bg, string(sec))
				payloads = [][]byte{append(append([]byte(nil), sec...), 0)}
				whole = sec
			} else {
				for j, n := range sizes {
					pl := kit.Pattern(n, salt+seq)
					seq++
					payloads = append(payloads, pl)
					whole = append(whole, pl...)
					if j < len(sizes)-1 {
						sendErr = S.SendPartialMessage(kit.Bg, pl)
					} else {
						sendErr = S.SendMessage(kit.Bg, pl)
					}
					if sendErr != nil {
						break
					}
				}
			}
			writes := sc.WriteLog[w0:]
			// a protected payload that does not fit one frame together with its tag (and, on the first protected frame
			// of the direction, the base IV) is sent as two frames: as much as fits, then the rest
			type piece struct {
				pl  []byte
				end byte
			}
			var pieces []piece
			ctr := m.ref.Ctr
			for j, pl := range payloads {
				end := byte(1)
				if j < len(payloads)-1 {
					end = 0
				}
				limit := 1<<20 - 16
				if ctr == 0 {
					limit -= 16
				}
				if protected && len(pl) > limit {
					pieces = append(pieces, piece{pl[:limit], 0}, piece{pl[limit:], end})
					ctr += 2
				} else {
					pieces = append(pieces, piece{pl, end})
					ctr++
				}
			}
			// predict each frame
			for j, pc := range pieces {
				pl, end := pc.pl, pc.end
				atLimit := protected && m.ref.Ctr == 0xffffffff
				nearLimit := protected && m.ref.Ctr == 0xfffffffe
				if j >= len(writes) {
					// the sender emitted nothing for this frame: only legal as a refusal at the counter limit
					if sendErr == nil {
						return fmt.Sprintf("op %d: send reported success but emitted %d of %d frames", oi, len(writes), len(pieces))
					}
					if !(atLimit || nearLimit || m.refused) {
						return fmt.Sprintf("op %d: send failed (%v) although the frame counter is %d", oi, sendErr, m.ref.Ctr)
					}
					m.refused = true
					return "" // a stream that refused is finished; nothing more to predict in this session
				}
				if protected && m.exhausted {
					return fmt.Sprintf("op %d: a protected frame was emitted after the 2^32 frame counter values were used up (counter wrapped)", oi)
				}
				if atLimit {
					m.exhausted = true // the last counter value may be used, nothing after it
				}
				got := writes[j]
				var want []byte
				if protected {
					if !m.knowIV {
						if len(got) < 21 {
							return fmt.Sprintf("op %d: first protected frame too short to carry an IV (%d bytes)", oi, len(got))
						}
						copy(m.ref.BaseIV[:], got[5:21])
						m.ref.HaveIV, m.knowIV = true, true
						st.baseIVs = append(st.baseIVs, m.ref.BaseIV)
					}
					want = m.ref.Seal(end, pl, digs[d][0], digs[d][1])
					st.protFrames[d]++
				} else {
					want = kit.BuildFrame(end, pl)
				}
				if !bytes.Equal(got, want) {
					return fmt.Sprintf("op %d (%s dir %d frame %d, protected=%v, ctr=%d): wire bytes differ from the reference codec: %s",
						oi, op.Kind, d, j, protected, m.ref.Ctr-1, kit.FirstDiff(want, got))
				}
			}
			if len(writes) > len(pieces) {
				return fmt.Sprintf("op %d: sender emitted %d frames for %d", oi, len(writes), len(pieces))
			}
			if sendErr != nil {
				return fmt.Sprintf("op %d: send failed after emitting everything: %v", oi, sendErr)
			}
			if m.broken {
				continue // the peer lost this direction at the broken frame; only the sender's bytes are judged
			}
			// the real receiver must accept what the real sender produced
			var got []byte
			var err error
			if op.Kind == "secret" {
				var sstr string
				sstr, err = R.GetSecret(kit.Bg)
				got = []byte(sstr)
			} else {
				got, err = R.ReceiveCompleteMessage(kit.Bg)
			}
			if err != nil {
				return fmt.Sprintf("op %d: real receiver rejected the real sender's frames: %v", oi, err)
			}
			if !bytes.Equal(got, whole) {
				return fmt.Sprintf("op %d: receiver returned different bytes: %s", oi, kit.FirstDiff(whole, got))
			}
		}
	}
	return ""
}

func runCase(c Case) (string, runStats) {
	var st runStats
	key := kit.Pattern(32, c.Salt+9)
	for i, s := range c.Sessions {
		if v := runSession(key, s, c.Salt+uint32(i)*7919, &st); v != "" {
			return fmt.Sprintf("session %d: %s", i, v), st
		}
	}
	seen := map[[16]byte]bool{}
	for _, n := range st.nonces {
		if seen[n] {
			return fmt.Sprintf("nonce %x used twice under one key", n), st
		}
		seen[n] = true
	}
	ivs := map[[16]byte]bool{}
	for _, iv := range st.baseIVs {
		if ivs[iv] {
			return fmt.Sprintf("base IV %x used for two directions/sessions under one key", iv), st
		}
		ivs[iv] = true
	}
	return "", st
}

var sizeSet = []int{0, 1, 15, 16, 17, 4095, 4096, 4097, 70000}

func genSession(t *rapid.T, allowBlob bool) Session {
	var s Session
	genPre := func(label string) [][]int {
		n := rapid.IntRange(0, 3).Draw(t, label)
		var out [][]int
		for i := 0; i < n; i++ {
			k := rapid.IntRange(1, 3).Draw(t, "preframes")
			var m []int
			for j := 0; j < k; j++ {
				m = append(m, rapid.SampledFrom([]int{0, 1, 8, 40, 300}).Draw(t, "prelen"))
			}
			out = append(out, m)
		}
		return out
	}
	s.PreAB, s.PreBA = genPre("npreab"), genPre("nprebA")
	if allowBlob && rapid.IntRange(0, 2).Draw(t, "useblob") == 0 {
		s.Blob = true
		ctrs := []uint32{0, 1, 2, 1 << 31, 0xfffffffc, 0xfffffffd, 0xfffffffe}
		s.CtrA = rapid.SampledFrom(ctrs).Draw(t, "ctrA")
		s.CtrB = rapid.SampledFrom(ctrs).Draw(t, "ctrB")
		words := []uint32{0, 1, 0x7fffffff, 0xfffffff0, 0xfffffffe, 0xffffffff}
		s.WordA = rapid.SampledFrom(words).Draw(t, "wordA")
		s.WordB = rapid.SampledFrom(words).Draw(t, "wordB")
	}
	n := rapid.IntRange(1, 40).Draw(t, "nops")
	for i := 0; i < n; i++ {
		k := rapid.IntRange(0, 9).Draw(t, "opkind")
		switch {
		case k == 0:
			s.Ops = append(s.Ops, Op{Kind: "mode", On: rapid.Bool().Draw(t, "on")})
		case k == 2 && rapid.IntRange(0, 2).Draw(t, "fw") == 0:
			sz := rapid.SampledFrom([]int{1, 16, 17, 300, 4096}).Draw(t, "fwsize")
			s.Ops = append(s.Ops, Op{Kind: "failwrite", Dir: rapid.IntRange(0, 1).Draw(t, "dir"), Sizes: []int{sz, rapid.IntRange(0, sz+20).Draw(t, "passed")}})
		case k == 3 && rapid.IntRange(0, 3).Draw(t, "rk") == 0:
			s.Ops = append(s.Ops, Op{Kind: "rekey"})
		case k == 1:
			s.Ops = append(s.Ops, Op{Kind: "secret", Dir: rapid.IntRange(0, 1).Draw(t, "dir"), Sizes: []int{rapid.IntRange(0, 60).Draw(t, "seclen")}})
		default:
			nf := rapid.SampledFrom([]int{1, 1, 1, 2, 3}).Draw(t, "nframes")
			var sz []int
			for j := 0; j < nf; j++ {
				sz = append(sz, rapid.SampledFrom(sizeSet).Draw(t, "size"))
			}
			s.Ops = append(s.Ops, Op{Kind: "send", Dir: rapid.IntRange(0, 1).Draw(t, "dir"), Sizes: sz})
		}
	}
	return s
}

func record(c Case, st runStats) {
	class := "setkey"
	for _, s := range c.Sessions {
		if s.Blob {
			class = "blob"
			if s.CtrA >= 0xfffffffc || s.CtrB >= 0xfffffffc {
				class = "blob-near-limit"
			}
		}
	}
	k := ""
	if (st.protFrames[0] >= 3 || st.protFrames[1] >= 3) && st.protFrames[0] > 0 && st.protFrames[1] > 0 {
		b, _ := json.Marshal(c)
		k = string(b)
	}
	ev.Case(class, k)
	ev.Count("protected_frames_predicted", int64(st.protFrames[0]+st.protFrames[1]))
	ev.Count("nonces_audited", int64(len(st.nonces)))
	if len(c.Sessions) > 1 {
		ev.Class("multi-session-one-key")
	}
	if st.rekeys > 0 {
		ev.Class("key-installed-again-on-the-same-streams")
	}
}

// TestC12Rekey: directed histories in which the same key is installed again on the same pair of streams,
// 1-3 times, with traffic in both directions (and mode toggles, secrets) before and after.
func TestC12Rekey(t *testing.T) {
	bad := 0
	n := 0
	for pre := 0; pre < 4; pre++ {
		for _, sz := range [][]int{{16}, {0}, {4097, 1}, {70000}} {
			for rk := 1; rk <= 3; rk++ {
				for variant := 0; variant < 4; variant++ {
					var s Session
					if pre&1 != 0 {
						s.PreAB = [][]int{{8, 40}}
					}
					if pre&2 != 0 {
						s.PreBA = [][]int{{300}}
					}
					traffic := func() {
						s.Ops = append(s.Ops, Op{Kind: "send", Dir: 0, Sizes: sz}, Op{Kind: "send", Dir: 1, Sizes: sz})
						switch variant {
						case 1:
							s.Ops = append(s.Ops, Op{Kind: "mode", On: false}, Op{Kind: "secret", Dir: 0, Sizes: []int{20}}, Op{Kind: "send", Dir: 1, Sizes: []int{5}})
						case 2:
							s.Ops = append(s.Ops, Op{Kind: "send", Dir: 0, Sizes: []int{1, 1, 1}})
						case 3:
							s.Ops = append(s.Ops, Op{Kind: "secret", Dir: 1, Sizes: []int{3}})
						}
					}
					traffic()
					for i := 0; i < rk; i++ {
						s.Ops = append(s.Ops, Op{Kind: "rekey"})
						traffic()
					}
					c := Case{Salt: uint32(1000 + n), Sessions: []Session{s}}
					n++
					v, st := runCase(c)
					record(c, st)
					if v != "" && bad < 5 {
						bad++
						kit.Violation("C12", v, c)
						t.Errorf("C12 violated: %s", v)
					}
				}
			}
		}
	}
	ev.Exhaustive("directed: the same key installed again 1-3 times on the same streams x 4 cleartext prefixes x 4 message shapes x 4 traffic variants")
}

func TestC12Histories(t *testing.T) {
	rapid.Check(t, func(t *rapid.T) {
		c := Case{Salt: rapid.Uint32().Draw(t, "salt")}
		ns := rapid.IntRange(1, 3).Draw(t, "nsessions")
		for i := 0; i < ns; i++ {
			c.Sessions = append(c.Sessions, genSession(t, true))
		}
		v, st := runCase(c)
		record(c, st)
		ev.Sample("history", c)
		if v != "" {
			js, _ := json.Marshal(c)
			t.Fatalf("C12 violated: %s\ncase: %s", v, js)
		}
	})
}

// TestC12FailedWrites: a write that fails after k bytes of a protected frame are on the wire, for every
// position of that frame in a short history; the sends that follow must not reuse its nonce.
func TestC12FailedWrites(t *testing.T) {
	bad := 0
	n := 0
	for _, size := range []int{1, 16, 300} {
		for _, passed := range []int{0, 4, 5, 21, 22, size + 20, size + 21, size + 40} {
			for before := 0; before < 3; before++ {
				for _, dir := range []int{0, 1} {
					s := Session{PreAB: [][]int{{3}}}
					for i := 0; i < before; i++ {
						s.Ops = append(s.Ops, Op{Kind: "send", Dir: dir, Sizes: []int{9}}, Op{Kind: "send", Dir: 1 - dir, Sizes: []int{2}})
					}
					s.Ops = append(s.Ops, Op{Kind: "failwrite", Dir: dir, Sizes: []int{size, passed}},
						Op{Kind: "send", Dir: dir, Sizes: []int{size}}, Op{Kind: "secret", Dir: dir, Sizes: []int{5}}, Op{Kind: "send", Dir: 1 - dir, Sizes: []int{7}}, Op{Kind: "send", Dir: dir, Sizes: []int{0, 40}})
					c := Case{Salt: uint32(1000 + n), Sessions: []Session{s}}
					n++
					v, st := runCase(c)
					record(c, st)
					if v != "" && bad < 4 {
						bad++
						kit.Violation("C12", v, c)
						t.Errorf("C12 violated: %s", v)
					}
				}
			}
		}
	}
	ev.Exhaustive("a write failing after k bytes (8 values of k) of a protected frame of 3 sizes, as 1st/2nd/3rd protected frame of either direction, followed by 4 further sends")
}

// TestC12CounterEdge: deterministic sweep of the counter limit and of
// base-word wrap-around.
func TestC12CounterEdge(t *testing.T) {
	bad := 0
	for _, ctr := range []uint32{0xfffffffa, 0xfffffffc, 0xfffffffd, 0xfffffffe, 0xffffffff} {
		for _, word := range []uint32{0, 5, 0xfffffffb, 0xffffffff} {
			for _, dir := range []int{0, 1} {
				s := Session{Blob: true, CtrA: 3, CtrB: 3, WordA: word, WordB: word ^ 0x1234, PreAB: [][]int{{4}}}
				if dir == 0 {
					s.CtrA = ctr
				} else {
					s.CtrB = ctr
				}
				for i := 0; i < 8; i++ {
					s.Ops = append(s.Ops, Op{Kind: "send", Dir: dir, Sizes: []int{i}})
				}
				c := Case{Salt: ctr ^ word, Sessions: []Session{s}}
				v, st := runCase(c)
				record(c, st)
				ev.Sample("counter-edge", c)
				if v != "" && bad < 4 {
					bad++
					kit.Violation("C12", v, c)
					t.Errorf("C12 violated: %s", v)
				}
			}
		}
	}
	ev.Exhaustive("counter start values 2^32-6..2^32-1 x base-IV words {0,5,2^32-5,2^32-1} x both directions, 8 sends each")
}

// TestC12RefToReal: frames built by the reference codec (fresh IV, digests
// computed by the harness) are fed to the real receiver.
func TestC12RefToReal(t *testing.T) {
	rapid.Check(t, func(t *rapid.T) {
		salt := rapid.Uint32().Draw(t, "salt")
		key := kit.Pattern(32, salt+9)
		p := kit.NewPair()
		npre := rapid.IntRange(0, 3).Draw(t, "shape")
		if npre&1 != 0 {
			if err := p.ClearExchange(0, [][]byte{kit.Pattern(9, salt), kit.Pattern(1, salt+1)}); err != nil {
				t.Fatal(err)
			}
		}
		if npre&2 != 0 {
			if err := p.ClearExchange(1, [][]byte{kit.Pattern(30, salt+2)}); err != nil {
				t.Fatal(err)
			}
		}
		if err := p.B.SetSymmetricKey(key); err != nil {
			t.Fatal(err)
		}
		rd, _ := kit.NewRefDir(key)
		copy(rd.BaseIV[:], kit.Pattern(16, salt+3))
		binary.BigEndian.PutUint32(rd.BaseIV[:4], rapid.SampledFrom([]uint32{0, 7, 0xfffffffe, 0xffffffff}).Draw(t, "word"))
		rd.HaveIV = true
		n := rapid.IntRange(1, 12).Draw(t, "nmsgs")
		for i := 0; i < n; i++ {
			nf := rapid.IntRange(1, 3).Draw(t, "nframes")
			var whole []byte
			for j := 0; j < nf; j++ {
				pl := kit.Pattern(rapid.SampledFrom(sizeSet).Draw(t, "size"), salt+uint32(i*4+j))
				whole = append(whole, pl...)
				end := byte(1)
				if j < nf-1 {
					end = 0
				}
				p.CB.Feed(rd.Seal(end, pl, p.ClearAB.Sum(), p.ClearBA.Sum()))
			}
			got, err := p.B.ReceiveCompleteMessage(kit.Bg)
			if err != nil {
				t.Fatalf("C12 violated: real receiver rejects a frame built by the reference codec (message %d): %v", i, err)
			}
			if !bytes.Equal(got, whole) {
				t.Fatalf("C12 violated: real receiver decoded different bytes from a reference-built frame: %s", kit.FirstDiff(whole, got))
			}
		}
		ev.Case("ref-to-real", fmt.Sprintf("r2r/%d/%d/%d", salt, npre, n))
	})
}

func TestC12Replay(t *testing.T) {
	var c Case
	ok, err := kit.ReplayCase(&c)
	if !ok {
		t.Skip("no VERIF_REPLAY")
	}
	if err != nil {
		t.Fatal(err)
	}
	if v, _ := runCase(c); v != "" {
		t.Fatalf("C12 violated: %s", v)
	}
}
