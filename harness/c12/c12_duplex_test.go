package c12

import (
	"bytes"
	"encoding/binary"
	"fmt"
	"io"
	"sync"
	"testing"

	"github.com/bbockelm/cedar/stream"

	"verifharness/kit"
)

// TestC12Duplex: the wire format also holds while ONE stream sends and receives at the same time (one goroutine
// each, as a server that answers while it reads, or the CCB listener's heartbeat beside its control loop, does).
// The peer is the reference codec: every frame the stream emits must open under the reference rules of its own
// direction, every reference-built frame must be accepted, and no nonce of a direction may repeat.
func TestC12Duplex(t *testing.T) {
	rounds := kit.Scale(6, 40)
	per := kit.Scale(1500, 4000)
	bad := 0
	for r := 0; r < rounds && bad == 0; r++ {
		key := kit.Pattern(32, uint32(5100+r))
		pa, pb := kit.NextPorts()
		ac, hc := kit.NewBufPipe(pa, pb)
		A := stream.NewStream(ac)
		if err := A.SetSymmetricKey(key); err != nil {
			t.Fatal(err)
		}
		zero := make([]byte, 32)
		sizes := []int{0, 1, 15, 16, 17, 64, 300, 1000}
		var wg sync.WaitGroup
		var mu sync.Mutex
		viol := ""
		setViol := func(v string) {
			mu.Lock()
			if viol == "" {
				viol = v
			}
			mu.Unlock()
			_ = ac.Close()
			_ = hc.Close()
		}
		// the stream's two goroutines
		wg.Add(4)
		go func() { // A sends
			defer wg.Done()
			for i := 0; i < per; i++ {
				if err := A.SendMessage(kit.Bg, kit.Pattern(sizes[i%len(sizes)], uint32(i))); err != nil {
					return
				}
			}
		}()
		go func() { // A receives
			defer wg.Done()
			for i := 0; i < per; i++ {
				m, err := A.ReceiveCompleteMessage(kit.Bg)
				if err != nil {
					setViol(fmt.Sprintf("round %d: the stream rejected frame #%d built by the reference codec while it was sending at the same time: %v", r, i, err))
					return
				}
				if !bytes.Equal(m, kit.Pattern(sizes[(i+3)%len(sizes)], uint32(90000+i))) {
					setViol(fmt.Sprintf("round %d: message #%d received while sending differs from what the reference peer sealed", r, i))
					return
				}
			}
		}()
		// the reference peer's two goroutines
		go func() { // opens what A emits
			defer wg.Done()
			rd, _ := kit.NewRefDir(key)
			hdr := make([]byte, 5)
			for i := 0; i < per; i++ {
				if _, err := io.ReadFull(hc, hdr); err != nil {
					return
				}
				body := make([]byte, binary.BigEndian.Uint32(hdr[1:5]))
				if _, err := io.ReadFull(hc, body); err != nil {
					return
				}
				fr, _ := kit.ParseFrames(append(append([]byte(nil), hdr...), body...))
				if len(fr) != 1 {
					setViol(fmt.Sprintf("round %d: emitted bytes #%d are not one frame", r, i))
					return
				}
				pt, err := rd.Open(fr[0], zero, zero)
				if err != nil {
					setViol(fmt.Sprintf("round %d: frame #%d emitted while the stream was also receiving does not open under the reference codec (nonce = base IV + %d, AAD = header): %v", r, i, i, err))
					return
				}
				if !bytes.Equal(pt, kit.Pattern(sizes[i%len(sizes)], uint32(i))) {
					setViol(fmt.Sprintf("round %d: frame #%d opens to other bytes than were sent", r, i))
					return
				}
			}
		}()
		go func() { // seals what A receives
			defer wg.Done()
			rd, _ := kit.NewRefDir(key)
			copy(rd.BaseIV[:], kit.Pattern(16, uint32(777+r)))
			rd.HaveIV = true
			for i := 0; i < per; i++ {
				if _, err := hc.Write(rd.Seal(1, kit.Pattern(sizes[(i+3)%len(sizes)], uint32(90000+i)), zero, zero)); err != nil {
					return
				}
			}
		}()
		wg.Wait()
		_ = ac.Close()
		_ = hc.Close()
		ev.Case("duplex", fmt.Sprintf("duplex:%d", r))
		ev.Count("protected_frames_predicted", int64(2*per))
		if viol != "" {
			bad++
			kit.Violation("C12", viol, map[string]any{"duplex_round": r})
			t.Errorf("C12 violated: %s", viol)
		}
	}
	ev.Exhaustive(fmt.Sprintf("%d rounds of %d frames each way with the stream sending and receiving concurrently against the reference codec", rounds, per))
}

// TestC12FirstFrameNearLimit: the first protected frame of a direction also carries the 16-byte base IV; payloads
// within 48 bytes of the 1 MiB frame limit as the FIRST protected frame, as a later one, after a cleartext
// prefix and after the same key was installed again - every frame must still follow the format (and fit).
func TestC12FirstFrameNearLimit(t *testing.T) {
	const MiB = 1 << 20
	bad := 0
	n := 0
	for _, sz := range []int{MiB - 48, MiB - 33, MiB - 32, MiB - 31, MiB - 24, MiB - 17, MiB - 16, MiB - 15, MiB - 1, MiB} {
		for variant := 0; variant < 4; variant++ {
			n++
			if !kit.Thorough() && (n+variant)%2 == 0 {
				continue
			}
			var s Session
			if variant == 1 {
				s.PreAB, s.PreBA = [][]int{{40}}, [][]int{{8, 300}}
			}
			s.Ops = []Op{{Kind: "send", Dir: 0, Sizes: []int{sz}}, {Kind: "send", Dir: 1, Sizes: []int{sz}}, {Kind: "send", Dir: 0, Sizes: []int{sz}}, {Kind: "send", Dir: 1, Sizes: []int{5}}}
			if variant == 2 {
				s.Ops = append([]Op{{Kind: "send", Dir: 0, Sizes: []int{3}}}, s.Ops...)
			}
			if variant == 3 {
				s.Ops = append(s.Ops, Op{Kind: "rekey"}, Op{Kind: "send", Dir: 1, Sizes: []int{sz}}, Op{Kind: "send", Dir: 0, Sizes: []int{sz, 7}})
			}
			c := Case{Salt: uint32(3000 + n), Sessions: []Session{s}}
			v, st := runCase(c)
			record(c, st)
			if v != "" && bad < 4 {
				bad++
				kit.Violation("C12", v, c)
				t.Errorf("C12 violated: %s", v)
			}
		}
	}
	ev.Exhaustive("10 payload sizes within 48 bytes of the 1 MiB frame limit as first / later protected frame of a direction x {plain start, cleartext prefix, small frame first, same key installed again}")
}
