// Package c03 decides property C03: REQUIRED means required and the
// reported handshake outcome is what really happened, whatever the peer sends.
package c03

import (
	"bytes"
	"context"
	"encoding/json"
	"fmt"
	"strings"
	"sync"
	"testing"
	"time"

	"github.com/PelicanPlatform/classad/classad"
	"github.com/bbockelm/cedar/security"
	"github.com/bbockelm/cedar/stream"

	"verifharness/kit"
)

func TestMain(m *testing.M) { kit.Main(m) }

var ev = kit.Ev("C03")

func init() {
	ev.Rule("case = role of the endpoint under test (client/server) x its policy (4x4 authentication/encryption levels, integrity = OPTIONAL or REQUIRED) x its ordered method list " +
		"(subsets of CLAIMTOBE, FS, PASSWORD) x {policy on the authenticator, policy per command (server)} x fresh or resumed (cached session with/without key, authenticated or not) x a scripted peer from the deviation catalogue " +
		"(honest; answers Authentication/Encryption NO; omits/truncates/randomises/garbles its ECDH key; no common cipher; selects an unoffered method bit, several bits, zero, an unknown bit; " +
		"offers unlisted bits; post-auth DENIED; post-auth ad in clear; arbitrary User/Sid; resumption replies); the whole product is enumerated. " +
		"oracle (ground truth = what the scripted peer saw + the wire tap + the reference codec): success with own authentication REQUIRED => a listed method really completed (or the resumed session was authenticated); " +
		"own encryption/integrity REQUIRED => the next frame the endpoint writes opens under the reference codec with the independently derived key and does not show the plaintext; " +
		"reported Encryption == stream state == wire; reported Authentication/method == what ran; non-trivial = deviating peer and a REQUIRED level; distinct by case")
}

type Case struct {
	Role      string   `json:"role"` // "client" or "server" = endpoint under test
	Auth      int      `json:"auth"`
	Enc       int      `json:"enc"`
	Integrity bool     `json:"integrity_required"`
	Methods   []string `json:"methods"`
	Peer      string   `json:"peer"`
	Resumed   string   `json:"resumed,omitempty"` // "", "key+auth", "key+noauth", "nokey+auth", "nokey+noauth"
	// PerCmd (server role): the policy above is the per-command policy handed out by
	// ServerConfigForCommand for the command the client names; the authenticator's base policy is
	// OPTIONAL/OPTIONAL. "REQUIRED means required" for the policy that applies to the command.
	PerCmd bool `json:"per_command,omitempty"`
	// Explicit (client role, resumed): the session is named through SecurityConfig.SessionID instead of
	// being found by (address, command)
	Explicit bool `json:"explicit,omitempty"`
}

var levels = []security.SecurityLevel{security.SecurityRequired, security.SecurityPreferred, security.SecurityOptional, security.SecurityNever}

var methodLists = [][]string{{"CLAIMTOBE"}, {"FS"}, {"CLAIMTOBE", "FS"}, {"FS", "CLAIMTOBE"}, {"PASSWORD", "CLAIMTOBE"}}

// peer kinds per role of the *peer*
var serverPeers = []string{"honest", "auth-no", "enc-no", "enc-no-keep-key", "key-omit", "key-truncated", "key-random", "key-garbage", "no-common-cipher",
	"select-unoffered", "select-several", "select-zero", "select-zero-carry-on", "select-unknown", "postauth-denied", "postauth-clear", "postauth-identity", "auth-no-enc-no", "select-unlisted-and-run", "postauth-secret-attr"}
var clientPeers = []string{"honest", "never", "key-omit", "key-truncated", "key-random", "key-garbage", "no-common-cipher", "bits-unlisted", "bits-extra", "bits-zero", "enc-never"}
var resumePeers = []string{"honest", "reply-denied", "reply-notfound", "no-key", "wrong-key"}

func peerOpts(c Case) kit.PeerOpts {
	o := kit.PeerOpts{AuthMethods: "CLAIMTOBE,FS", CryptoMethods: "AES", SayAuth: "YES", SayEnc: "YES", Command: 60011}
	if c.Role == "server" { // peer is a client
		o.SayAuth, o.SayEnc = "OPTIONAL", "OPTIONAL"
	}
	switch c.Peer {
	case "auth-no":
		o.SayAuth = "NO"
	case "enc-no":
		o.SayEnc, o.Key = "NO", kit.KeyOmit
	case "enc-no-keep-key":
		o.SayEnc = "NO"
	case "auth-no-enc-no":
		o.SayAuth, o.SayEnc, o.Key = "NO", "NO", kit.KeyOmit
	case "key-omit":
		o.Key = kit.KeyOmit
	case "key-truncated":
		o.Key = kit.KeyTruncated
	case "key-random":
		o.Key = kit.KeyRandom
	case "key-garbage":
		o.Key = kit.KeyGarbage
	case "no-common-cipher":
		o.CryptoMethods = "BLOWFISH"
	case "select-unoffered":
		o.SelectBits = kit.BitToken
	case "select-several":
		o.SelectBits = kit.BitClaimToBe | kit.BitFS | kit.BitSSL
	case "select-zero":
		o.SelectBits = -1 // replaced below
	case "select-unknown":
		o.SelectBits = 1 << 20
	case "select-zero-carry-on":
		// "none of your methods" - and then the key-exchange message and an AUTHORIZED post-auth ad all the same
		o.SelectZero = true
	case "select-unlisted-and-run":
		// select (and really perform) a method the endpoint never listed
		switch {
		case !inList(c.Methods, "CLAIMTOBE"):
			o.SelectBits = kit.BitClaimToBe
		case !inList(c.Methods, "FS"):
			o.SelectBits = kit.BitFS
		}
	case "postauth-denied":
		o.PostAuthReturnCode = "DENIED"
	case "postauth-clear":
		o.PostAuthInClear = true
	case "postauth-secret-attr":
		o.PostAuthSecretAttr = true
	case "postauth-identity":
		o.PostAuthUser, o.PostAuthSid = "root@everywhere", "victim:1:1:1"
	case "never":
		o.SayAuth = "NEVER"
	case "enc-never":
		o.SayEnc = "NEVER"
	case "bits-unlisted":
		o.SendBits = kit.BitToken | kit.BitSSL
	case "bits-extra":
		o.SendBits = kit.BitClaimToBe | kit.BitFS | kit.BitToken | 1<<20
	case "bits-zero":
		o.SendBits = -1
	}
	return o
}

type observed struct {
	success     bool
	err         error
	neg         *security.SecurityNegotiation
	st          *stream.Stream
	plog        *kit.PeerLog
	protected   bool
	showsPlain  bool
	refOpens    bool
	timedOut    bool
	resumedOnWire bool
}

var planted = kit.Pattern(32, 303)

func plantClientSession(cfg *security.SecurityConfig, mode string) string {
	sid := "planted:1:1700000000:3"
	pol := classad.New()
	if strings.Contains(mode, "+auth") {
		_ = pol.Set("AuthMethods", "CLAIMTOBE")
		_ = pol.Set("User", "alice@verif.test")
		_ = pol.Set("Authenticated", true)
	} else {
		_ = pol.Set("AuthMethods", "CLAIMTOBE") // the negotiated name is recorded even when nothing ran
		_ = pol.Set("Authenticated", false)
	}
	_ = pol.Set("CryptoMethods", "AES")
	var ki *security.KeyInfo
	if strings.HasPrefix(mode, "key") {
		ki = &security.KeyInfo{Data: planted, Protocol: "AES"}
	}
	e := security.NewSessionEntry(sid, cfg.PeerName, ki, pol, time.Now().Add(time.Hour), time.Hour, "")
	cfg.SessionCache.Store(e)
	cfg.SessionCache.MapCommand("", cfg.PeerName, fmt.Sprint(cfg.Command), sid)
	return sid
}

func plantServerSession(mode string) string {
	sid := fmt.Sprintf("planted-srv:%d:1700000000:4", time.Now().UnixNano())
	pol := classad.New()
	if strings.Contains(mode, "+auth") {
		_ = pol.Set("AuthMethods", "CLAIMTOBE")
		_ = pol.Set("User", "alice@verif.test")
		_ = pol.Set("Authenticated", true)
	} else {
		_ = pol.Set("Authenticated", false)
	}
	_ = pol.Set("CryptoMethods", "AES")
	var ki *security.KeyInfo
	if strings.HasPrefix(mode, "key") {
		ki = &security.KeyInfo{Data: planted, Protocol: "AES"}
	}
	e := security.NewSessionEntry(sid, "<127.0.0.1:1>", ki, pol, time.Now().Add(time.Hour), time.Hour, "")
	security.GetSessionCache().Store(e)
	return sid
}

func methodsOf(l []string) []security.AuthMethod {
	var out []security.AuthMethod
	for _, m := range l {
		out = append(out, security.AuthMethod(m))
	}
	return out
}

func run(c Case) observed {
	var ob observed
	cfg := kit.BaseConfig(levels[c.Auth], levels[c.Enc], methodsOf(c.Methods)...)
	if c.Integrity {
		cfg.Integrity = security.SecurityRequired
	}
	cfg.PeerName = "<127.0.0.1:9618>"
	o := peerOpts(c)
	if o.SelectBits == -1 {
		o.SelectBits = 0
		o.AuthMethods = "TOKEN" // scripted server has nothing it can select: answers 0
	}
	if o.SendBits == -1 {
		o.SendBits = 0
		o.AuthMethods = "" // honest mask of nothing = 0
	}
	pa, pb := kit.NextPorts()
	cc, sc := kit.NewBufPipe(pa, pb)
	ctx, cancel := context.WithTimeout(context.Background(), 4*time.Second)
	defer cancel()
	var wg sync.WaitGroup
	wg.Add(1)
	var pstream *stream.Stream
	var endpointConn, peerConn *kit.BufConn
	if c.Role == "client" {
		endpointConn, peerConn = cc, sc
		if c.Resumed != "" {
			sid := plantClientSession(cfg, c.Resumed)
			if c.Explicit {
				cfg.SessionID = sid
			}
			o.ResumeKey = planted
			switch c.Peer {
			case "reply-denied":
				o.ResumeReply = "DENIED"
			case "reply-notfound":
				o.ResumeReply = "SID_NOT_FOUND"
			case "no-key":
				o.ResumeKey = nil
			case "wrong-key":
				o.ResumeKey = kit.Pattern(32, 999)
			}
		}
		go func() {
			defer wg.Done()
			ob.plog, pstream = kit.ScriptedServer(sc, o, 3*time.Second)
		}()
		ob.st = stream.NewStream(cc)
		a := security.NewAuthenticator(cfg, ob.st)
		ob.neg, ob.err = a.ClientHandshake(ctx)
	} else {
		endpointConn, peerConn = sc, cc
		if c.Resumed != "" {
			o.ResumeSid = plantServerSession(c.Resumed)
			o.ResumeResponse = true
			o.ResumeKey = planted
			switch c.Peer {
			case "no-key":
				o.ResumeKey = nil
			case "wrong-key":
				o.ResumeKey = kit.Pattern(32, 999)
			case "reply-denied":
				o.ResumeResponse = false
			}
		}
		go func() {
			defer wg.Done()
			ob.plog, pstream = kit.ScriptedClient(cc, o, 3*time.Second)
		}()
		ob.st = stream.NewStream(sc)
		a := security.NewAuthenticator(cfg, ob.st)
		if c.PerCmd {
			weak := *cfg
			weak.Authentication, weak.Encryption, weak.Integrity = security.SecurityOptional, security.SecurityOptional, security.SecurityOptional
			a = security.NewAuthenticator(&weak, ob.st)
			a.ServerConfigForCommand = func(command int) *security.SecurityConfig {
				if command != 60011 {
					return nil
				}
				strong := *cfg
				return &strong
			}
		}
		ob.neg, ob.err = a.ServerHandshake(ctx)
	}
	if ob.err != nil {
		_ = endpointConn.Close()
	}
	wg.Wait()
	_ = pstream
	ob.timedOut = ctx.Err() != nil
	ob.success = ob.err == nil
	if !ob.success {
		_ = peerConn.Close()
		return ob
	}
	// the endpoint reported success: make it send a probe and look at the wire
	probe := []byte("C03-PROBE-PLAINTEXT-0123456789-" + c.Peer)
	n0 := len(endpointConn.Written())
	if err := ob.st.SendMessage(kit.Bg, probe); err != nil {
		ob.err = fmt.Errorf("probe send failed: %w", err)
		return ob
	}
	written := endpointConn.Written()
	frame := bytes.Join(written[n0:], nil)
	ob.showsPlain = bytes.Contains(frame, probe)
	// reference opening: key the peer derived independently (or the planted one), digests from the taps
	key := ob.plog.Key
	// What happened on the wire decides whether this was a resumption: an endpoint
	// may decline to ride its cached session and perform a full handshake instead.
	ob.resumedOnWire = c.Resumed != "" && (c.Role == "server" || ob.plog.ResumeRequested != "")
	if ob.resumedOnWire && strings.HasPrefix(c.Resumed, "key") {
		key = planted
	}
	if key != nil && !ob.showsPlain {
		pw := peerConn.Written()
		// the peer's cleartext frames: everything before its first protected frame
		nclear := len(pw)
		if c.Role == "client" && !ob.resumedOnWire && ob.plog.Key != nil && !peerOpts(c).PostAuthInClear && len(pw) > 0 {
			nclear = len(pw) - 1 // the scripted server's post-auth ad was protected
		}
		var back kit.Digest
		for _, w := range pw[:nclear] {
			back.AddFrame(w)
		}
		// The endpoint's first protected frame is the first one that opens when all
		// frames before it are taken as its cleartext; every later frame must open in
		// sequence and the last one must be the probe.
		for first := 0; first < len(written) && !ob.refOpens; first++ {
			var fwd kit.Digest
			for _, w := range written[:first] {
				fwd.AddFrame(w)
			}
			rd, err := kit.NewRefDir(key)
			if err != nil {
				break
			}
			okAll := true
			var last []byte
			for _, w := range written[first:] {
				fr, _ := kit.ParseFrames(w)
				if len(fr) != 1 {
					okAll = false
					break
				}
				pt, err := rd.Open(fr[0], fwd.Sum(), back.Sum())
				if err != nil {
					okAll = false
					break
				}
				last = pt
			}
			if okAll && bytes.Equal(last, probe) {
				ob.refOpens = true
			}
		}
	}
	ob.protected = !ob.showsPlain && ob.refOpens
	_ = peerConn.Close()
	_ = endpointConn.Close()
	return ob
}

func inList(l []string, m string) bool {
	for _, x := range l {
		if x == m {
			return true
		}
	}
	return false
}

var rerunMu sync.Mutex

// judge applies the C03 oracle.
func judge(c Case, ob observed) string {
	if !ob.success {
		return "" // failing is always acceptable here (C10 owns "must succeed")
	}
	if ob.plog == nil {
		return "harness: no peer log"
	}
	ownAuthReq := c.Auth == 0
	ownEncReq := c.Enc == 0 || c.Integrity
	ran := ob.plog.AuthCompleted
	if !ob.showsPlain && !ob.refOpens {
		return fmt.Sprintf("success reported, but the frame the endpoint wrote next neither shows the plaintext nor opens under the reference codec with the key the peer derived (peer key present: %v)", ob.plog.Key != nil)
	}
	if ownEncReq && !ob.protected {
		return fmt.Sprintf("own policy requires encryption/integrity and the handshake returned success, but the next frame travelled in the clear (neg.Encryption=%v stream.IsEncrypted=%v)", ob.neg.Encryption, ob.st.IsEncrypted())
	}
	if ob.neg.Encryption != ob.st.IsEncrypted() || ob.neg.Encryption != ob.protected {
		return fmt.Sprintf("reported Encryption=%v, stream.IsEncrypted=%v, frame on the wire protected=%v", ob.neg.Encryption, ob.st.IsEncrypted(), ob.protected)
	}
	if !ob.resumedOnWire {
		if ownAuthReq && (ran == "" || !inList(c.Methods, ran)) {
			return fmt.Sprintf("own policy requires authentication and the handshake returned success, but the peer saw %q complete (own list %v); reported Authentication=%v method=%s",
				ran, c.Methods, ob.neg.Authentication, ob.neg.NegotiatedAuth)
		}
		if ob.neg.Authentication != (ran != "") {
			return fmt.Sprintf("reported Authentication=%v but the authentication exchange that completed on the wire is %q", ob.neg.Authentication, ran)
		}
		if ran != "" && string(ob.neg.NegotiatedAuth) != ran {
			return fmt.Sprintf("reported method %s but %s ran on the wire", ob.neg.NegotiatedAuth, ran)
		}
	} else {
		sessAuth := strings.Contains(c.Resumed, "+auth")
		if ownAuthReq && !sessAuth {
			return "own policy requires authentication, the resumed session was not an authenticated one, and the handshake returned success"
		}
	}
	return ""
}

func allCases() []Case {
	var out []Case
	for _, role := range []string{"client", "server"} {
		peers := serverPeers
		if role == "server" {
			peers = clientPeers
		}
		for auth := 0; auth < 4; auth++ {
			for enc := 0; enc < 4; enc++ {
				for _, integ := range []bool{false, true} {
					if integ && enc != 2 {
						continue // integrity REQUIRED is combined with encryption OPTIONAL
					}
					for _, ml := range methodLists {
						for _, p := range peers {
							out = append(out, Case{Role: role, Auth: auth, Enc: enc, Integrity: integ, Methods: ml, Peer: p})
						}
					}
					for _, res := range []string{"key+auth", "key+noauth", "nokey+auth", "nokey+noauth"} {
						for _, p := range resumePeers {
							out = append(out, Case{Role: role, Auth: auth, Enc: enc, Integrity: integ, Methods: []string{"CLAIMTOBE"}, Peer: p, Resumed: res})
							if role == "server" {
								out = append(out, Case{Role: role, Auth: auth, Enc: enc, Integrity: integ, Methods: []string{"CLAIMTOBE"}, Peer: p, Resumed: res, PerCmd: true})
							} else {
								out = append(out, Case{Role: role, Auth: auth, Enc: enc, Integrity: integ, Methods: []string{"CLAIMTOBE"}, Peer: p, Resumed: res, Explicit: true})
							}
						}
					}
					if role == "server" { // fresh handshakes under a per-command policy
						for _, ml := range methodLists[:3] {
							for _, p := range peers {
								out = append(out, Case{Role: role, Auth: auth, Enc: enc, Integrity: integ, Methods: ml, Peer: p, PerCmd: true})
							}
						}
					}
				}
			}
		}
	}
	return out
}

func TestC03Catalogue(t *testing.T) {
	cases := allCases()
	var mu sync.Mutex
	bad := map[string]int{}
	sem := make(chan struct{}, 12)
	var wg sync.WaitGroup
	for i, c := range cases {
		if i%kit.NShards() != kit.Shard() {
			continue
		}
		wg.Add(1)
		sem <- struct{}{}
		go func(c Case) {
			defer wg.Done()
			defer func() { <-sem }()
			ob := run(c)
			v := judge(c, ob)
			if v != "" {
				// What an endpoint does with a given configuration against a given scripted peer is deterministic, so a
				// finding must reproduce: the same case once more, on its own (one thorough sweep beside two other checks
				// produced a verdict that five later runs of the same case did not - an artefact of the saturated machine).
				rerunMu.Lock()
				time.Sleep(50 * time.Millisecond)
				ob2 := run(c)
				rerunMu.Unlock()
				if v2 := judge(c, ob2); v2 == "" {
					ev.Class("first-verdict-not-reproduced(inconclusive)")
					v = ""
				} else {
					ob, v = ob2, v2
				}
			}
			k := ""
			if c.Peer != "honest" && (c.Auth == 0 || c.Enc == 0 || c.Integrity) {
				b, _ := json.Marshal(c)
				k = string(b)
			}
			class := c.Role + "/fails"
			if ob.success {
				class = c.Role + "/succeeds"
			}
			if ob.timedOut {
				class = c.Role + "/timed-out(inconclusive)"
			}
			ev.Case(class, k)
			ev.Class("peer:" + c.Peer)
			if c.Peer == "key-random" && c.Auth == 0 && c.Enc == 0 && c.Methods[0] == "FS" {
				ev.Sample("case", map[string]any{"case": c, "peer_steps": ob.plog.Steps, "success": ob.success})
			}
			if v != "" {
				mu.Lock()
				sig := fmt.Sprintf("%s/%s/%s/%v/%v", c.Role, c.Peer, c.Resumed, c.PerCmd, c.Explicit)
				if bad[sig] < 1 {
					kit.Violation("C03", v, c)
					t.Errorf("C03 violated: %s\n  case %+v\n  peer steps: %v", v, c, ob.plog.Steps)
				}
				bad[sig]++
				mu.Unlock()
			}
		}(c)
	}
	wg.Wait()
	ev.Exhaustive(fmt.Sprintf("the whole catalogue product: %d cases (2 roles x 16 policies (+4 integrity-REQUIRED) x 5 method lists x %d/%d peer kinds, plus 4 cached-session kinds x %d resumption peers; the server role additionally with its policy handed out per command through ServerConfigForCommand over an OPTIONAL base policy, the client role additionally naming the cached session explicitly through SessionID)",
		len(cases), len(serverPeers), len(clientPeers), len(resumePeers)))
}

func TestC03Replay(t *testing.T) {
	var c Case
	ok, err := kit.ReplayCase(&c)
	if !ok {
		t.Skip("no VERIF_REPLAY")
	}
	if err != nil {
		t.Fatal(err)
	}
	ob := run(c)
	if v := judge(c, ob); v != "" {
		t.Fatalf("C03 violated: %s\n peer steps: %v", v, ob.plog.Steps)
	}
}
