// Package c01 decides property C01: framed messages round-trip byte-exactly
// under any chunking, on plaintext and AES-GCM streams, and whatever the
// sender accepts the receiver accepts.
package c01

import (
	"time"
	"context"
	"bytes"
	"encoding/binary"
	"encoding/json"
	"fmt"
	"io"
	"os"
	"testing"

	"github.com/bbockelm/cedar/message"
	"github.com/bbockelm/cedar/stream"
	"pgregory.net/rapid"

	"verifharness/kit"
)

func TestMain(m *testing.M) { kit.Main(m) }

const MiB = 1 << 20

var ev = kit.Ev("C01")

func init() {
	ev.Rule("cases = (mode plain|AES, cleartext prefix, sender API, receiver API, 1-6 messages with generated lengths " +
		"(weighted to 0,1,4KiB+-1,16KiB+-1,1MiB+-48,2-3MiB) and a composition of each message into writes/flushes); " +
		"oracle = byte-exact round trip with boundaries, accept/accept agreement, typed layer accepts any length; " +
		"non-trivial = some message spans >=2 wire frames or has a length within 48 bytes of 4KiB/16KiB/1MiB; " +
		"distinct by (mode, APIs, length vector, composition)")
	ev.Assume("reference: message bytes are a deterministic pattern computed by the harness; typed-value expected bytes " +
		"(8-byte big-endian ints, NUL-terminated strings with 8-byte length prefix when encrypting) come from the format description")
}

// Sender APIs.
const (
	SSendMessage = iota // one SendMessage
	SPartials           // SendPartialMessage x k + SendMessage
	SWriteMessage       // StartMessage / WriteMessage x k / EndMessage
	STypedBytes         // message.Message: PutBytes/PutChar/PutInt + FlushFrame(false) + FinishMessage
	STypedString        // message.Message: one PutString
	STypedStringBytes   // message.Message: one PutStringBytes
	nSend
)

// Receiver APIs.
const (
	RComplete  = iota // ReceiveCompleteMessage
	RReadBytes        // StartMessageRead / ReadMessageBytes / EndMessageRead
	RMsgGetBytes      // message.Message GetBytes in pieces, then expect EOM
	RMsgRemaining     // message.Message GetRemainingBytes
	RFrames           // ReceiveFrameWithEnd until end flag
	nRecv
)

var sendNames = []string{"SendMessage", "Partials", "WriteMessage", "TypedBytes", "TypedString", "TypedStringBytes"}
var recvNames = []string{"ReceiveCompleteMessage", "ReadMessageBytes", "Msg.GetBytes", "Msg.GetRemainingBytes", "ReceiveFrameWithEnd"}

type Msg struct {
	Len   int    `json:"len"`
	Cuts  []int  `json:"cuts"`  // piece sizes, sum == Len (ignored by single-call senders)
	Flush uint32 `json:"flush"` // typed sender: bit i set = FlushFrame(false) after piece i
}

type Case struct {
	AES    bool  `json:"aes"`
	// KeyOff (with AES): the key is installed on both ends and crypto mode then switched off again (the
	// keyed-but-cleartext state the secret hand-over uses): frames travel in the clear and must round-trip
	// like on a plain stream.
	KeyOff bool `json:"key_off,omitempty"`
	// Dribble > 0: the receiver's connection hands out at most this many bytes per Read
	Dribble int  `json:"dribble,omitempty"`
	Prefix int   `json:"prefix"` // cleartext messages exchanged before the key (AES only); bit0: A->B, bit1: B->A
	Send   int   `json:"send"`
	Recv   int   `json:"recv"`
	Msgs   []Msg `json:"msgs"`
	Reads  []int `json:"reads"` // read sizes cycled by piecewise receivers
	Salt   uint32 `json:"salt"`
	// Over: the piecewise stream reader offers buffers that may be longer than the rest of the message
	Over bool `json:"over,omitempty"`
	// Ctx: 0 context.Background(), 1 a cancellable context that is never cancelled, 2 a context with a far deadline
	Ctx int `json:"ctx,omitempty"`
}

func (c Case) key() string {
	b, _ := json.Marshal(c)
	return string(b)
}

// stringSafe maps a pattern to bytes without NUL (PutString truncates at NUL).
func stringSafe(b []byte) []byte {
	for i := range b {
		if b[i] == 0 {
			b[i] = 1
		}
	}
	return b
}

type result struct {
	violation string
	wireFrames int // frames on the wire for accepted messages
	rejected  bool
}

// runCase executes one case against the real streams and applies the oracle.
func runCase(c Case) result {
	// the context every call gets: the background context, one that can be cancelled (never is), or one with a
	// far deadline - the stream takes a different read/write path for contexts that can end
	ctx := context.Background()
	switch c.Ctx {
	case 1:
		var cancel context.CancelFunc
		ctx, cancel = context.WithCancel(ctx)
		defer cancel()
	case 2:
		var cancel context.CancelFunc
		ctx, cancel = context.WithTimeout(ctx, time.Hour)
		defer cancel()
	}
	p := kit.NewPair()
	if c.AES {
		if c.Prefix&1 != 0 {
			if err := p.ClearExchange(0, [][]byte{kit.Pattern(37, c.Salt+900)}); err != nil {
				return result{violation: "cleartext prefix A->B failed: " + err.Error()}
			}
		}
		if c.Prefix&2 != 0 {
			if err := p.ClearExchange(1, [][]byte{kit.Pattern(5, c.Salt+901), kit.Pattern(11, c.Salt+902)}); err != nil {
				return result{violation: "cleartext prefix B->A failed: " + err.Error()}
			}
		}
		if err := p.SetKey(kit.Pattern(32, c.Salt+77)); err != nil {
			return result{violation: "SetSymmetricKey: " + err.Error()}
		}
		if c.KeyOff {
			p.A.SetCryptoMode(false)
			p.B.SetCryptoMode(false)
		}
	}
	S, R := p.A, p.B
	p.CB.MaxRead = c.Dribble
	var expected [][]byte
	res := result{}
	w0 := len(p.CA.WriteLog)
	wireAtLastAccepted := 0
	for i, m := range c.Msgs {
		payload := kit.Pattern(m.Len, c.Salt+uint32(i)*131)
		cuts := m.Cuts
		if len(cuts) == 0 {
			cuts = []int{m.Len}
		}
		var err error
		typed := false
		want := payload
		switch c.Send {
		case SSendMessage:
			err = S.SendMessage(ctx, payload)
		case SPartials:
			off := 0
			for j, n := range cuts {
				if j == len(cuts)-1 {
					err = S.SendMessage(ctx, payload[off:off+n])
				} else {
					err = S.SendPartialMessage(ctx, payload[off:off+n])
				}
				off += n
				if err != nil {
					break
				}
			}
		case SWriteMessage:
			S.StartMessage()
			off := 0
			for _, n := range cuts {
				if err = S.WriteMessage(ctx, payload[off:off+n]); err != nil {
					break
				}
				off += n
			}
			if err == nil {
				err = S.EndMessage(ctx)
			}
		case STypedBytes:
			typed = true
			msg := message.NewMessageForStream(S)
			off := 0
			want = nil
			for j, n := range cuts {
				piece := payload[off : off+n]
				off += n
				switch {
				case n == 1:
					err = msg.PutChar(ctx, piece[0])
					want = append(want, piece[0])
				case n == 8 && j%2 == 1:
					v := int64(binary.BigEndian.Uint64(piece))
					err = msg.PutInt64(ctx, v)
					want = append(want, piece...)
				default:
					err = msg.PutBytes(ctx, piece)
					want = append(want, piece...)
				}
				if err == nil && m.Flush&(1<<uint(j%32)) != 0 {
					err = msg.FlushFrame(ctx, false)
				}
				if err != nil {
					break
				}
			}
			if err == nil {
				err = msg.FinishMessage(ctx)
			}
		case STypedString, STypedStringBytes:
			typed = true
			msg := message.NewMessageForStream(S)
			str := stringSafe(payload)
			if c.Send == STypedString {
				err = msg.PutString(ctx, string(str))
			} else {
				err = msg.PutStringBytes(ctx, str)
			}
			want = nil
			if c.AES && !c.KeyOff {
				var l [8]byte
				binary.BigEndian.PutUint64(l[:], uint64(len(str)+1))
				want = append(want, l[:]...)
			}
			want = append(want, str...)
			want = append(want, 0)
			if err == nil {
				err = msg.FinishMessage(ctx)
			}
		}
		if err != nil {
			if typed {
				res.violation = fmt.Sprintf("typed-message sender %s refused message %d of length %d: %v (the typed layer must accept any length)",
					sendNames[c.Send], i, m.Len, err)
				return res
			}
			res.rejected = true // the stream-level sender may reject; the case ends here
			break
		}
		expected = append(expected, want)
		wireAtLastAccepted = len(p.CA.WriteLog) - w0
	}
	res.wireFrames = len(p.CA.WriteLog) - w0

	reads := c.Reads
	if len(reads) == 0 {
		reads = []int{4096}
	}
	ri := 0
	nextRead := func() int {
		n := reads[ri%len(reads)]
		ri++
		if n < 1 {
			n = 1
		}
		return n
	}
	recvOne := func(wantLen int) ([]byte, error) {
		switch c.Recv {
		case RComplete:
			return R.ReceiveCompleteMessage(ctx)
		case RReadBytes:
			if err := R.StartMessageRead(ctx); err != nil {
				return nil, err
			}
			var got []byte
			for len(got) < wantLen {
				n := nextRead()
				if n > wantLen-len(got) && !c.Over {
					n = wantLen - len(got)
				}
				// (with Over the buffer may be longer than what is left of the message, as a reader that does not
				// know the length in advance would offer: the read stops at the message's end all the same)
				buf := make([]byte, n)
				k, err := R.ReadMessageBytes(ctx, buf)
				if err != nil {
					return got, err
				}
				if k == 0 {
					return got, fmt.Errorf("ReadMessageBytes returned 0 bytes with %d outstanding", wantLen-len(got))
				}
				got = append(got, buf[:k]...)
				if len(got) > wantLen {
					return got, fmt.Errorf("ReadMessageBytes handed out %d bytes of a %d-byte message: it read past the message's end", len(got), wantLen)
				}
			}
			if err := R.EndMessageRead(); err != nil {
				return got, err
			}
			return got, nil
		case RMsgGetBytes:
			msg := message.NewMessageFromStream(R)
			var got []byte
			var pieces [][]byte
			if wantLen < 0 { // probing for "no further message"
				b, err := msg.GetBytes(ctx, 1)
				return b, err
			}
			for len(got) < wantLen {
				n := nextRead()
				if n > wantLen-len(got) {
					n = wantLen - len(got)
				}
				b, err := msg.GetBytes(ctx, n)
				if err != nil {
					return got, err
				}
				// the pieces are held as returned and only joined once the message is over: what the
				// application was handed must not change under it while it reads on
				pieces = append(pieces, b)
				got = append(got, b...)
			}
			// The message must end here: one more byte is io.EOF (also drains
			// trailing empty frames up to the end flag).
			if _, err := msg.GetChar(ctx); err != io.EOF {
				if err == nil {
					return got, fmt.Errorf("message longer than expected")
				}
				return got, err
			}
			return bytes.Join(pieces, nil), nil // a piece that changed after it was handed out shows up in the comparison
		case RMsgRemaining:
			msg := message.NewMessageFromStream(R)
			return msg.GetRemainingBytes(ctx)
		case RFrames:
			var got []byte
			var frames [][]byte // held as returned, joined at the end of the message
			for {
				d, end, err := R.ReceiveFrameWithEnd(ctx)
				if err != nil {
					return got, err
				}
				frames = append(frames, d)
				if end != 0 {
					return bytes.Join(frames, nil), nil
				}
			}
		}
		return nil, fmt.Errorf("bad receiver")
	}
	held := make([][]byte, 0, len(expected))
	for i, want := range expected {
		got, err := recvOne(len(want))
		held = append(held, got)
		if err != nil {
			res.violation = fmt.Sprintf("receiver %s rejected message %d (len %d) that sender %s accepted: %v",
				recvNames[c.Recv], i, len(want), sendNames[c.Send], err)
			return res
		}
		if string(got) != string(want) {
			res.violation = fmt.Sprintf("message %d differs after round trip (%s -> %s): %s",
				i, sendNames[c.Send], recvNames[c.Recv], kit.FirstDiff(want, got))
			return res
		}
	}
	// what was handed out earlier is still what was sent once the later messages have been read
	for i, want := range expected {
		if string(held[i]) != string(want) {
			res.violation = fmt.Sprintf("message %d changed after later messages were received (%s -> %s): %s",
				i, sendNames[c.Send], recvNames[c.Recv], kit.FirstDiff(want, held[i]))
			return res
		}
	}
	// Nothing further may be delivered as a complete message.
	if c.Recv == RReadBytes {
		if err := R.StartMessageRead(ctx); err == nil {
			res.violation = "receiver produced an extra message after the accepted sequence"
		}
	} else if c.Recv == RMsgGetBytes && res.rejected && res.wireFrames > wireAtLastAccepted {
		// the sender was refused in the middle of a message whose first partial frames are already on the
		// wire: a byte-level reader may legitimately read those bytes (the message just never ends), so
		// "one more byte" says nothing about message boundaries here
	} else if extra, err := recvOne(-1); err == nil {
		res.violation = fmt.Sprintf("receiver produced an extra message (%d bytes) after the accepted sequence", len(extra))
	}
	return res
}

func nearEdge(n int) bool {
	for _, e := range []int{4096, 16384, MiB} {
		if n >= e-48 && n <= e+48 {
			return true
		}
	}
	return false
}

func record(c Case, r result) {
	class := fmt.Sprintf("%s/%s/aes=%v", sendNames[c.Send], recvNames[c.Recv], c.AES)
	if c.KeyOff {
		class += "/keyed-cleartext"
	}
	nt := r.wireFrames > len(c.Msgs)
	maxLen := 0
	for _, m := range c.Msgs {
		if nearEdge(m.Len) {
			nt = true
		}
		if m.Len > maxLen {
			maxLen = m.Len
		}
	}
	k := ""
	if nt {
		k = c.key()
	}
	ev.Case(class, k)
	switch {
	case maxLen >= MiB-48:
		ev.Class("size:>=1MiB-48")
	case maxLen >= 16384-48:
		ev.Class("size:16KiB..1MiB")
	case maxLen >= 4096-48:
		ev.Class("size:4KiB..16KiB")
	default:
		ev.Class("size:<4KiB")
	}
	if r.rejected {
		ev.Class("sender-rejected")
	}
	if r.wireFrames > len(c.Msgs) {
		ev.Class("multi-frame")
	}
}

// ---------------------------------------------------------------------------
// generators
// ---------------------------------------------------------------------------

func genLen(big bool) *rapid.Generator[int] {
	return rapid.Custom(func(t *rapid.T) int {
		k := rapid.IntRange(0, 99).Draw(t, "lenclass")
		switch {
		case k < 8:
			return 0
		case k < 14:
			return 1
		case k < 30:
			return rapid.IntRange(2, 300).Draw(t, "small")
		case k < 45:
			return 4096 + rapid.IntRange(-2, 2).Draw(t, "d4k")
		case k < 58:
			return 16384 + rapid.IntRange(-2, 2).Draw(t, "d16k")
		case k < 72:
			return rapid.IntRange(300, 70000).Draw(t, "mid")
		case k < 86 && big:
			return MiB + rapid.IntRange(-48, 48).Draw(t, "d1m")
		case k < 92 && big:
			return rapid.IntRange(2*MiB, 3*MiB).Draw(t, "huge")
		default:
			return rapid.IntRange(0, 9000).Draw(t, "other")
		}
	})
}

func genCuts(t *rapid.T, n int) []int {
	if n == 0 {
		return []int{0}
	}
	k := rapid.IntRange(1, 6).Draw(t, "pieces")
	var cuts []int
	rem := n
	for i := 0; i < k-1 && rem > 0; i++ {
		var c int
		switch rapid.IntRange(0, 5).Draw(t, "cutclass") {
		case 0:
			c = 1
		case 1:
			c = 8
		case 2:
			c = 4096 + rapid.IntRange(-1, 1).Draw(t, "c4k")
		case 3:
			c = 16384 + rapid.IntRange(-1, 1).Draw(t, "c16k")
		default:
			c = rapid.IntRange(0, rem).Draw(t, "cut")
		}
		if c > rem {
			c = rem
		}
		cuts = append(cuts, c)
		rem -= c
	}
	cuts = append(cuts, rem)
	return cuts
}

func genCase(t *rapid.T) Case {
	c := Case{
		AES:    rapid.Bool().Draw(t, "aes"),
		Prefix: rapid.IntRange(0, 3).Draw(t, "prefix"),
		Send:   rapid.IntRange(0, nSend-1).Draw(t, "send"),
		Recv:   rapid.IntRange(0, nRecv-1).Draw(t, "recv"),
		Salt:   rapid.Uint32().Draw(t, "salt"),
	}
	c.KeyOff = c.AES && rapid.IntRange(0, 3).Draw(t, "keyoff") == 0
	c.Dribble = rapid.SampledFrom([]int{0, 0, 0, 1, 3, 7, 4096}).Draw(t, "dribble")
	c.Ctx = rapid.IntRange(0, 2).Draw(t, "ctx")
	c.Over = rapid.Bool().Draw(t, "over")
	big := rapid.IntRange(0, 3).Draw(t, "bigcase") == 0 // <=25% of cases may contain >=1MiB messages
	n := rapid.IntRange(1, 6).Draw(t, "nmsgs")
	if big {
		n = rapid.IntRange(1, 3).Draw(t, "nmsgsbig")
	}
	for i := 0; i < n; i++ {
		l := genLen(big).Draw(t, "len")
		m := Msg{Len: l, Cuts: genCuts(t, l), Flush: rapid.Uint32().Draw(t, "flush")}
		c.Msgs = append(c.Msgs, m)
	}
	nr := rapid.IntRange(1, 4).Draw(t, "nreads")
	for i := 0; i < nr; i++ {
		c.Reads = append(c.Reads, rapid.SampledFrom([]int{1, 2, 7, 100, 4095, 4096, 4097, 16384, 70000, MiB}).Draw(t, "read"))
	}
	return c
}

// TestC01Rapid: generated cases.
func TestC01Rapid(t *testing.T) {
	rapid.Check(t, func(t *rapid.T) {
		c := genCase(t)
		r := runCase(c)
		record(c, r)
		ev.Sample("rapid", c)
		if r.violation != "" {
			t.Fatalf("C01 violated: %s\ncase: %s", r.violation, c.key())
		}
	})
}

func fail(t *testing.T, c Case, r result) {
	kit.Violation("C01", r.violation, c)
	t.Errorf("C01 violated: %s\ncase: %s", r.violation, c.key())
}

// TestC01Compositions enumerates EVERY composition of short messages into
// pieces, for every piecewise sender, both modes, rotating receivers.
func TestC01Compositions(t *testing.T) {
	maxLen := kit.Scale(9, 12)
	bad := 0
	for n := 0; n <= maxLen; n++ {
		ncomp := 1
		if n > 1 {
			ncomp = 1 << uint(n-1)
		}
		for mask := 0; mask < ncomp; mask++ {
			var cuts []int
			run := 1
			for i := 0; i < n-1; i++ {
				if mask&(1<<uint(i)) != 0 {
					cuts = append(cuts, run)
					run = 1
				} else {
					run++
				}
			}
			if n > 0 {
				cuts = append(cuts, run)
			} else {
				cuts = []int{0}
			}
			for _, aes := range []bool{false, true} {
				for _, snd := range []int{SPartials, SWriteMessage, STypedBytes} {
					rcv := (mask + n + snd) % nRecv
					c := Case{AES: aes, KeyOff: aes && (mask+n)%3 == 0, Dribble: []int{0, 1, 2, 5}[(mask+n+snd)%4], Ctx: (mask + n + rcv) % 3, Over: (mask+n)%2 == 1, Prefix: (mask + n) % 4, Send: snd, Recv: rcv, Salt: uint32(n*4096 + mask),
						Msgs:  []Msg{{Len: n, Cuts: cuts, Flush: uint32(mask*7 + n)}, {Len: (n + 3) % 5, Cuts: nil}},
						Reads: []int{1 + mask%3}}
					r := runCase(c)
					record(c, r)
					if mask == ncomp-1 && n == maxLen {
						ev.Sample("composition", c)
					}
					if r.violation != "" && bad < 5 {
						bad++
						fail(t, c, r)
					}
				}
			}
		}
	}
	ev.Exhaustive(fmt.Sprintf("every composition of messages of length 0..%d into pieces x {Partials,WriteMessage,TypedBytes} x {plain, AES, key installed but crypto mode off}", maxLen))
}

// TestC01Band sweeps every length around the 1 MiB frame limit, both modes,
// stream-level and typed senders, as first and as later protected frame.
func TestC01Band(t *testing.T) {
	width := kit.Scale(40, 48)
	bad := 0
	for d := -width; d <= width; d++ {
		for _, aes := range []bool{false, true} {
			for _, snd := range []int{SSendMessage, SWriteMessage, STypedBytes, STypedString} {
				for _, later := range []bool{false, true} {
					c := Case{AES: aes, Prefix: (d + width) % 4, Send: snd, Recv: (d + width + snd) % nRecv, Salt: uint32(d + 1000), Reads: []int{70000}}
					if later {
						c.Msgs = append(c.Msgs, Msg{Len: 3})
					}
					c.Msgs = append(c.Msgs, Msg{Len: MiB + d, Cuts: []int{MiB + d}})
					if snd == SWriteMessage && d <= 0 {
						// the band also as a NON-final frame: a partial frame of this size, then a short final one
						// (one message, whatever the sender has to do to get it onto the wire)
						pc := c
						pc.Send = SPartials
						pc.Msgs = append([]Msg(nil), c.Msgs...)
						pc.Msgs[len(pc.Msgs)-1] = Msg{Len: MiB + d + 7, Cuts: []int{MiB + d, 7}}
						pr := runCase(pc)
						record(pc, pr)
						if pr.violation != "" && bad < 5 {
							bad++
							fail(t, pc, pr)
						}
					}
					r := runCase(c)
					record(c, r)
					if d == 0 {
						ev.Sample("band", c)
					}
					if r.violation != "" && bad < 5 {
						bad++
						fail(t, c, r)
					}
				}
			}
		}
	}
	ev.Exhaustive(fmt.Sprintf("every message length in [1MiB-%d, 1MiB+%d] x {plain,AES} x 4 senders (plus Partials at or below the limit: a partial frame of that size followed by a 7-byte final frame) x {first,later frame}", width, width))
}

// TestC01Replay re-executes one saved case (VERIF_REPLAY) and the committed
// regression cases.
func TestC01Replay(t *testing.T) {
	var c Case
	if ok, err := kit.ReplayCase(&c); ok {
		if err != nil {
			t.Fatal(err)
		}
		if r := runCase(c); r.violation != "" {
			t.Fatalf("C01 violated: %s", r.violation)
		}
		return
	}
	b, err := os.ReadFile("testdata/regress.json")
	if err != nil {
		t.Skip("no regression file")
	}
	var cs []Case
	if err := json.Unmarshal(b, &cs); err != nil {
		t.Fatal(err)
	}
	for _, c := range cs {
		r := runCase(c)
		record(c, r)
		if r.violation != "" {
			fail(t, c, r)
		}
	}
}

var _ = stream.MaxMessageSize
