// Package c06 decides property C06: session resumption requires the session
// key and never revives a dead session.
package c06

import (
	"os"
	"bytes"
	"context"
	"encoding/json"
	"fmt"
	"strings"
	"sync"
	"testing"
	"time"

	"github.com/bbockelm/cedar/message"
	"github.com/bbockelm/cedar/security"
	"github.com/bbockelm/cedar/stream"
	"pgregory.net/rapid"

	"verifharness/kit"
)

func TestMain(m *testing.M) { kit.Main(m) }

var ev = kit.Ev("C06")

func init() {
	ev.Rule("a history over a small pool of sessions on one real server: establish (with/without key, authenticated by CLAIMTOBE, by TOKEN or not at all; or minted from a claim id), honest resume (both directions recorded), " +
		"expire (virtual time through the hook; lazy or by sweep), invalidate, and attacks from a scripted requester on a new connection: right id + right key (control) / wrong key / no key, " +
		"unknown id, id differing in one character of each field, each with and without a reply requested, and byte-for-byte replays of either direction of a recorded resumed connection - cedar's own client's, or a scripted key holder's that sent no nonce of its own - (whole and cut after each frame); " +
		"oracle: reference session table (alive, has key, identity, authenticated) decides whether the server may return success and with which identity; a requester that asked for a reply to a dead/unknown id reads SID_NOT_FOUND; " +
		"an attacker without the key gets no byte accepted as application data and cannot read what the server sends (it opens under the reference codec only with the true key); " +
		"non-trivial = an attack/replay against a session that was resumed honestly before, or a resume attempt after expire/invalidate; distinct by history")
}

type Op struct {
	K  string `json:"k"`
	S  int    `json:"s"`  // session index
	V  int    `json:"v"`  // variant
	RR bool   `json:"rr"` // reply requested (attacks)
	X  int    `json:"x,omitempty"` // attacks: index into resumeExtras (hostile attributes in the request ad)
}

type Case struct {
	Ops []Op `json:"ops"`
	// Own: the server's SecurityConfig carries its own SessionCache (handshake-negotiated
	// sessions still live in the global cache; the server falls back to it).
	Own bool `json:"own,omitempty"`
	// Map: the server maps the authenticated identity through a PostAuthPolicy (what server.New installs
	// for a mapfile); the mapped identity is what the handshake established and what a resumption must restore.
	Map bool `json:"map,omitempty"`
}

var mapIdentity bool

// ownCache is the server's private cache for the current case, nil when the server uses the global one.
var ownCache *security.SessionCache

type recording struct {
	c2s, s2c [][]byte
	appMsg   []byte
	legacy   bool // the requester did not ask for a reply
}

type sess struct {
	sid             string
	key             []byte
	hasKey          bool
	authed          bool
	user            string
	alive           bool
	expired         bool
	ccfg            *security.SecurityConfig
	recs            []recording
	resumedHonestly bool
	firstExpiry     time.Time
	minted          bool // pre-shared through a claim id instead of negotiated
	claimID         string
	learnIdentity   bool
}

func serverConfig() *security.SecurityConfig {
	c := kit.BaseConfig(security.SecurityOptional, security.SecurityOptional, security.AuthClaimToBe, security.AuthToken)
	tokenEnv.Apply(nil, c)
	c.SessionCache = ownCache
	if mapIdentity {
		c.PostAuthPolicy = func(authUser, peerAddr string, authenticated, encrypted bool) (string, []int) {
			if !authenticated {
				return "", nil
			}
			return "mapped-" + authUser + "@pool", nil
		}
	}
	c.SessionDuration = 3600
	c.SessionLease = 1800
	return c
}

var tokenEnv = kit.NewTokenEnv()

type world struct {
	sessions []*sess
	stats    struct{ attacksAfterResume, deadResumes, attacks, replays int }
}

// serverSide runs a real server handshake on conn and then the application step.
type srvOut struct {
	neg     *security.SecurityNegotiation
	err     error
	appMsg  []byte
	appErr  error
	st      *stream.Stream
	probeAt int // index in conn.Written() of the probe frame
	wrote   bool
}

const serverProbe = "SERVER-SECRET-PROBE-9f8e7d"

func runServer(conn *kit.BufConn, wantApp bool) *srvOut {
	out := &srvOut{}
	ctx, cancel := context.WithTimeout(context.Background(), 3*time.Second)
	defer cancel()
	out.st = stream.NewStream(conn)
	a := security.NewAuthenticator(serverConfig(), out.st)
	out.neg, out.err = a.ServerHandshake(ctx)
	if out.err != nil {
		_ = conn.Close()
		return out
	}
	out.probeAt = len(conn.Written())
	if err := out.st.SendMessage(ctx, []byte(serverProbe)); err == nil {
		out.wrote = true
	}
	if wantApp {
		out.appMsg, out.appErr = out.st.ReceiveCompleteMessage(ctx)
	}
	return out
}

func findEntry(sid string) *security.SessionEntry {
	for _, e := range security.GetSessionCache().Snapshot() {
		if e.ID() == sid {
			return e
		}
	}
	if ownCache != nil {
		for _, e := range ownCache.Snapshot() {
			if e.ID() == sid {
				return e
			}
		}
	}
	return nil
}

// establishMinted: the session is not negotiated but pre-shared through a claim id: the server side mints
// it into its cache (MintClaimSession), the client imports the claim id into its own cache.
func (w *world) establishMinted(variant int) string {
	scache := ownCache
	if scache == nil {
		scache = security.GetSessionCache()
	}
	ccfg := kit.BaseConfig(security.SecurityRequired, security.SecurityOptional, security.AuthClaimToBe)
	ccfg.PeerName = fmt.Sprintf("<127.0.0.1:97%02d>", len(w.sessions))
	opts := security.MintClaimOptions{Sinful: ccfg.PeerName, Birthdate: 1700000000 + int64(len(w.sessions)), SequenceNum: 7 + variant, ValidCommands: []int{60011}}
	if variant%2 == 1 {
		opts.Lifetime = time.Hour
	}
	m, err := security.MintClaimSession(scache, opts)
	if err != nil {
		return "C06 harness: cannot mint a claim session: " + err.Error()
	}
	sid, err := security.ImportClaimSession(ccfg.SessionCache, m.ClaimID(), security.ClaimSessionOptions{PeerAddr: ccfg.PeerName})
	if err != nil || sid != m.SessionID() {
		return fmt.Sprintf("C06 harness: cannot import the minted claim (%v, %q vs %q)", err, sid, m.SessionID())
	}
	ccfg.SessionID = sid
	s := &sess{sid: sid, hasKey: true, alive: true, ccfg: ccfg, minted: true, claimID: m.ClaimID()}
	e := findEntry(sid)
	if e == nil || e.KeyInfo() == nil {
		return "minting registered no keyed session on the minter's side"
	}
	s.key = append([]byte(nil), e.KeyInfo().Data...)
	w.sessions = append(w.sessions, s)
	// the identity a resumption restores is whatever the first honest resumption reports
	s.learnIdentity = true
	return w.honestResume(s, 0)
}

func (w *world) establishInheritedKeyless() string {
	inhSeq++
	sid := fmt.Sprintf("fam-%d-%d", os.Getpid(), inhSeq)
	_ = os.Setenv("CONDOR_INHERIT", "4242 <127.0.0.1:9699>")
	_ = os.Setenv("CONDOR_PRIVATE_INHERIT", "FamilySessionKey:"+sid+`#[CryptoMethodsList="AES";Encryption="YES";]`)
	security.VerifResetProcessState()
	scache := ownCache
	if scache == nil {
		scache = security.GetSessionCache() // first use: registers what was inherited
	} else if _, err := security.VerifRegisterInherited(scache); err != nil {
		return "C06 harness: registering inherited sessions: " + err.Error()
	}
	_ = os.Unsetenv("CONDOR_INHERIT")
	_ = os.Unsetenv("CONDOR_PRIVATE_INHERIT")
	ccfg := kit.BaseConfig(security.SecurityRequired, security.SecurityOptional, security.AuthClaimToBe)
	ccfg.PeerName = "<127.0.0.1:9699>"
	ccfg.SessionID = sid
	s := &sess{sid: sid, hasKey: false, authed: true, user: "condor@family", alive: true, ccfg: ccfg}
	if e := findEntry(sid); e != nil && e.KeyInfo() != nil {
		s.key = append([]byte(nil), e.KeyInfo().Data...) // (whatever the library made up: the model still says "no key")
	}
	w.sessions = append(w.sessions, s)
	return ""
}

var inhSeq int

func (w *world) establish(variant int) string {
	// 0-3: negotiated with CLAIMTOBE or no authentication; 4-5: minted from a claim id; 6-7: negotiated with
	// TOKEN authentication (which leaves its own 32-byte exchange secret on the negotiation even when no
	// cipher is agreed: such a session carries no key to protect a stream with and is never resumed)
	variant %= 9
	if variant == 8 {
		// 8: a family session inherited through the environment WITHOUT key material: there is nothing to derive a
		// key from, so no session that could ever be resumed comes of it (only as the first session of a history:
		// the inheritance state is process-wide)
		if len(w.sessions) > 0 {
			variant = 0
		} else {
			return w.establishInheritedKeyless()
		}
	}
	if variant == 4 || variant == 5 {
		return w.establishMinted(variant)
	}
	withKey := variant&1 == 0
	authed := variant&2 == 0 || variant >= 6
	lvl := security.SecurityNever
	if authed {
		lvl = security.SecurityRequired
	}
	ccfg := kit.BaseConfig(lvl, security.SecurityOptional, security.AuthClaimToBe)
	if variant >= 6 {
		ccfg.AuthMethods = []security.AuthMethod{security.AuthToken}
		tokenEnv.Apply(ccfg, nil)
	}
	ccfg.PeerName = fmt.Sprintf("<127.0.0.1:96%02d>", len(w.sessions))
	if !withKey {
		ccfg.CryptoMethods = []security.CryptoMethod{security.CryptoBlowfish}
	}
	pa, pb := kit.NextPorts()
	cc, sc := kit.NewBufPipe(pa, pb)
	var so *srvOut
	var wg sync.WaitGroup
	wg.Add(1)
	go func() { defer wg.Done(); so = runServer(sc, false) }()
	ctx, cancel := context.WithTimeout(context.Background(), 3*time.Second)
	defer cancel()
	cst := stream.NewStream(cc)
	neg, err := security.NewAuthenticator(ccfg, cst).ClientHandshake(ctx)
	if err == nil {
		_, _ = cst.ReceiveCompleteMessage(ctx) // the server's probe
	}
	wg.Wait()
	_ = cc.Close()
	_ = sc.Close()
	if err != nil || so.err != nil {
		return fmt.Sprintf("honest establishment failed: client %v server %v", err, so.err)
	}
	s := &sess{sid: so.neg.SessionId, hasKey: withKey, authed: so.neg.Authentication, user: so.neg.User, alive: true, ccfg: ccfg}
	if mapIdentity && authed && !strings.HasPrefix(so.neg.User, "mapped-") {
		return fmt.Sprintf("C06 harness: the mapping policy was not applied at establishment (user %q)", so.neg.User)
	}
	if neg.SessionId != s.sid {
		return "client and server disagree on the session id at establishment"
	}
	if withKey != so.neg.Encryption {
		return fmt.Sprintf("establishment variant withKey=%v but server reports Encryption=%v", withKey, so.neg.Encryption)
	}
	if e := findEntry(s.sid); e != nil && e.KeyInfo() != nil {
		s.key = append([]byte(nil), e.KeyInfo().Data...)
	} else if withKey {
		return "server stored no key for a session established with encryption"
	}
	w.sessions = append(w.sessions, s)
	return ""
}

// honestResume: the real client resumes through its cache; both directions are recorded.
func (w *world) honestResume(s *sess, n int) string {
	if s.minted {
		// a client that was fed a replayed reply has (rightly) dropped its copy of the session; a pre-shared
		// session cannot be renegotiated, the application imports its claim id again
		if _, ok := s.ccfg.SessionCache.Lookup(s.sid); !ok {
			_, _ = security.ImportClaimSession(s.ccfg.SessionCache, s.claimID, security.ClaimSessionOptions{PeerAddr: s.ccfg.PeerName})
		}
	}
	pa, pb := kit.NextPorts()
	cc, sc := kit.NewBufPipe(pa, pb)
	var so *srvOut
	var wg sync.WaitGroup
	wg.Add(1)
	go func() { defer wg.Done(); so = runServer(sc, true) }()
	ctx, cancel := context.WithTimeout(context.Background(), 3*time.Second)
	defer cancel()
	cst := stream.NewStream(cc)
	a := security.NewAuthenticator(s.ccfg, cst)
	neg, err := a.ClientHandshake(ctx)
	app := []byte(fmt.Sprintf("HONEST-APP-MESSAGE-%d-%s", n, s.sid))
	var gotProbe []byte
	if err == nil {
		if e2 := cst.SendMessage(ctx, app); e2 != nil {
			err = e2
		} else {
			gotProbe, _ = cst.ReceiveCompleteMessage(ctx)
		}
	} else {
		_ = cc.Close()
	}
	wg.Wait()
	defer func() { _ = cc.Close(); _ = sc.Close() }()
	resumable := s.alive && s.hasKey
	resumedOnWire := a.WasSessionResumed()
	if !resumable {
		// the client may fall back to a full handshake (new session) or fail; the dead one must not be resumed
		if so.err == nil && so.neg != nil && so.neg.SessionId == s.sid {
			return fmt.Sprintf("server resumed session %s although the model says alive=%v hasKey=%v", s.sid, s.alive, s.hasKey)
		}
		w.stats.deadResumes++
		return ""
	}
	if err != nil || so.err != nil {
		return fmt.Sprintf("honest resumption of a live keyed session failed: client %v / server %v", err, so.err)
	}
	if !resumedOnWire || so.neg.SessionId != s.sid {
		// the client chose a full handshake: acceptable, nothing to check here
		return ""
	}
	if !bytes.Equal(so.appMsg, app) || string(gotProbe) != serverProbe {
		return fmt.Sprintf("after an honest resumption the two ends could not exchange messages (server got %q err %v, client got %q)", so.appMsg, so.appErr, gotProbe)
	}
	if !so.neg.Encryption || !so.st.IsEncrypted() || !cst.IsEncrypted() {
		return "resumed session is not encrypted on both ends"
	}
	if s.learnIdentity {
		s.learnIdentity = false
		s.authed, s.user = so.neg.Authentication, so.neg.User
	}
	if so.neg.Authentication != s.authed || so.neg.User != s.user {
		return fmt.Sprintf("server: resumed session reports authenticated=%v user=%q, the original handshake established authenticated=%v user=%q", so.neg.Authentication, so.neg.User, s.authed, s.user)
	}
	if neg.Authentication != s.authed {
		return fmt.Sprintf("client: resumed session reports authenticated=%v, the original handshake established %v", neg.Authentication, s.authed)
	}
	for _, wfr := range cc.Written() {
		if bytes.Contains(wfr, app) {
			return "application message of a resumed session travelled in the clear"
		}
	}
	// a renewal restarts the lease from this use: afterwards the session may not live longer than the
	// later of its original absolute expiry and one fresh lease period from now (a forced-expiry case keeps
	// its own clock and is not judged here)
	if e := findEntry(s.sid); e != nil && !s.expired {
		exp := e.Expiration()
		if s.firstExpiry.IsZero() {
			s.firstExpiry = exp
			if d := time.Until(exp); !s.minted && d > 3700*time.Second {
				s.firstExpiry = time.Now().Add(3600 * time.Second)
			}
		}
		bound := time.Now().Add(1800*time.Second + 10*time.Second)
		if s.firstExpiry.After(bound) {
			bound = s.firstExpiry.Add(10 * time.Second)
		}
		if !exp.IsZero() && exp.After(bound) {
			return fmt.Sprintf("after %d honest resumption(s) the server's entry expires in %v: later than both the expiry the handshake established and one lease (1800 s) from this use - renewals accumulate", len(s.recs)+1, time.Until(exp).Round(time.Second))
		}
	}
	s.recs = append(s.recs, recording{c2s: cc.Written(), s2c: sc.Written(), appMsg: app})
	s.resumedHonestly = true
	return ""
}

// resumeWithInvalidation runs an honest resumption and invalidates the session from inside the server's
// first write (its reply), i.e. while the resumption is in flight.
func (w *world) resumeWithInvalidation(s *sess, n int) string {
	if s.minted {
		if _, ok := s.ccfg.SessionCache.Lookup(s.sid); !ok {
			_, _ = security.ImportClaimSession(s.ccfg.SessionCache, s.claimID, security.ClaimSessionOptions{PeerAddr: s.ccfg.PeerName})
		}
	}
	pa, pb := kit.NextPorts()
	cc, sc := kit.NewBufPipe(pa, pb)
	var once sync.Once
	reported := true
	sc.OnWrite = func(i int) {
		once.Do(func() {
			reported = security.InvalidateSession(s.sid)
			if ownCache != nil && ownCache.Invalidate(s.sid) {
				reported = true
			}
		})
	}
	var so *srvOut
	var wg sync.WaitGroup
	wg.Add(1)
	go func() { defer wg.Done(); so = runServer(sc, true) }()
	ctx, cancel := context.WithTimeout(context.Background(), 3*time.Second)
	defer cancel()
	cst := stream.NewStream(cc)
	a := security.NewAuthenticator(s.ccfg, cst)
	if _, err := a.ClientHandshake(ctx); err == nil {
		_ = cst.SendMessage(ctx, []byte(fmt.Sprintf("INFLIGHT-%d", n)))
		_, _ = cst.ReceiveCompleteMessage(ctx)
	} else {
		_ = cc.Close()
	}
	wg.Wait()
	_ = cc.Close()
	_ = sc.Close()
	_ = so
	s.alive = false
	if !a.WasSessionResumed() {
		return "" // the client did not try to resume: nothing was in flight
	}
	if e := findEntry(s.sid); e != nil {
		return fmt.Sprintf("session %s was invalidated (reported %v) while a resumption of it was in flight, and is back in the server's cache once that resumption finished: a dead session was revived", s.sid, reported)
	}
	return ""
}

func mutateID(sid string, field int) string {
	parts := strings.Split(sid, ":")
	if len(parts) == 0 {
		return sid + "x"
	}
	i := field % len(parts)
	p := []byte(parts[i])
	if len(p) == 0 {
		parts[i] = "1"
	} else {
		last := len(p) - 1
		if p[last] == '9' {
			p[last] = '8'
		} else if p[last] >= '0' && p[last] < '9' {
			p[last]++
		} else {
			p[last] ^= 1
		}
		parts[i] = string(p)
	}
	return strings.Join(parts, ":")
}

// refOpensWith reports whether frame opens under the reference codec with key, given the cleartext of both directions.
func refOpensWith(key []byte, own [][]byte, nOwnClear int, peerClear [][]byte, want []byte) bool {
	rd, err := kit.NewRefDir(key)
	if err != nil {
		return false
	}
	var fwd, back kit.Digest
	for _, w := range own[:nOwnClear] {
		fwd.AddFrame(w)
	}
	for _, w := range peerClear {
		back.AddFrame(w)
	}
	fr, _ := kit.ParseFrames(own[nOwnClear])
	if len(fr) != 1 {
		return false
	}
	pt, err := rd.Open(fr[0], fwd.Sum(), back.Sum())
	return err == nil && bytes.Equal(pt, want)
}

// attack: a scripted requester on a new connection.
// kinds: 0 right id + right key, 1 right id + wrong key, 2 right id + no key, 3 unknown id, 4.. id with one field changed
// resumeExtras: what a requester may put into its resumption request besides the id. None of it may
// weaken what resumption promises (the connection is protected by the session key from the reply on).
var resumeExtras = []map[string]any{
	nil,
	{"CryptoMethods": "BLOWFISH"},
	{"CryptoMethods": ""},
	{"CryptoMethods": "3DES,BLOWFISH"},
	{"CryptoMethods": nil},
	{"Encryption": "NO", "Integrity": "NO"},
	{"Encryption": "NEVER", "Integrity": "NEVER", "Authentication": "NEVER"},
	{"Encryption": false, "Enact": "YES"},
	{"NewSession": "YES", "AuthMethods": "CLAIMTOBE", "Authentication": "OPTIONAL"},
	{"CryptoMethods": "AESGCM"},
	{"User": "root@evil", "TriedAuthentication": true, "Authentication": "YES"},
	{"SessionDuration": "99999999", "SessionLease": 99999999},
	{"ECDHPublicKey": "AAAA"},
}

func (w *world) attack(s *sess, kind int, rr bool, extra int) string {
	sid := s.sid
	var key []byte
	switch {
	case kind == 0:
		key = s.key
	case kind == 1:
		key = kit.Pattern(32, 6666)
	case kind == 2:
		key = nil
	case kind == 3:
		sid = "nosuchhost:4242:1700000000:99"
		key = s.key
	default:
		sid = mutateID(s.sid, kind-4)
		key = s.key
		// the neighbour id must not be another session of this history (fallback full
		// handshakes create sessions with adjacent counters)
		for findEntry(sid) != nil {
			sid += "7"
		}
	}
	pa, pb := kit.NextPorts()
	cc, sc := kit.NewBufPipe(pa, pb)
	var so *srvOut
	var wg sync.WaitGroup
	wg.Add(1)
	go func() { defer wg.Done(); so = runServer(sc, true) }()
	o := kit.PeerOpts{ResumeSid: sid, ResumeKey: key, ResumeResponse: rr, Command: 60011, ResumeExtra: resumeExtras[extra%len(resumeExtras)]}
	hostile := o.ResumeExtra != nil
	plog, pst := kit.ScriptedClient(cc, o, 2*time.Second)
	attackMsg := []byte("ATTACKER-APPLICATION-BYTES")
	if plog.Err == nil {
		if key != nil {
			_ = pst.SendMessage(kit.Bg, attackMsg) // sealed under the key the requester holds
		} else {
			_, _ = cc.Write(kit.BuildFrame(1, attackMsg)) // talks cleartext after the reply
		}
	}
	// give the server its input, then end the connection
	done := make(chan struct{})
	go func() { wg.Wait(); close(done) }()
	select {
	case <-done:
	case <-time.After(1500 * time.Millisecond):
	}
	_ = cc.Close()
	<-done
	_ = sc.Close()
	w.stats.attacks++
	if s.resumedHonestly {
		w.stats.attacksAfterResume++
	}
	targetIsReal := sid == s.sid
	mayResume := targetIsReal && s.alive && s.hasKey
	reply := ""
	if plog.PostAuthAd != nil {
		reply, _ = plog.PostAuthAd.EvaluateAttrString("ReturnCode")
	}
	if !mayResume {
		if so.err == nil {
			return fmt.Sprintf("server returned success for a resumption of %q (real session: %v alive=%v hasKey=%v expired=%v)", sid, targetIsReal, s.alive, s.hasKey, s.expired)
		}
		if rr && (!targetIsReal || !s.alive) && reply != "SID_NOT_FOUND" {
			return fmt.Sprintf("requester asked for a reply about a dead/unknown session %q but read %q (peer err %v)", sid, reply, plog.Err)
		}
		if so.appErr == nil && so.appMsg != nil {
			return "server accepted application data on a connection whose resumption it refused"
		}
		return ""
	}
	if so.err != nil {
		if hostile {
			return "" // refusing a request that carries odd attributes is always allowed
		}
		return fmt.Sprintf("server refused to resume a live keyed session presented with its id: %v", so.err)
	}
	if so.neg.User != s.user || so.neg.Authentication != s.authed || !so.neg.Encryption || !so.st.IsEncrypted() {
		return fmt.Sprintf("resumed negotiation does not match the session (user %q/%q auth %v/%v enc %v)", so.neg.User, s.user, so.neg.Authentication, s.authed, so.neg.Encryption)
	}
	holdsKey := kind == 0
	if holdsKey {
		if (so.appErr != nil || !bytes.Equal(so.appMsg, attackMsg)) && !hostile {
			return fmt.Sprintf("control: requester holding the right key could not deliver a message (%v)", so.appErr)
		}
		if !rr && !hostile {
			// a legacy-style resumption (no reply requested) by a key holder: keep it for the replay action
			s.recs = append(s.recs, recording{c2s: cc.Written(), s2c: sc.Written(), appMsg: attackMsg, legacy: true})
		}
		if rr && !hostile {
			// a key holder that asked for a reply but, unlike cedar's own client, put no nonce of its own into the
			// request (a peer of another implementation): its connection is recorded for the replay action too -
			// what makes a recorded connection worthless elsewhere has to come from the SERVER
			s.recs = append(s.recs, recording{c2s: cc.Written(), s2c: sc.Written(), appMsg: attackMsg})
		}
	} else if so.appErr == nil {
		return fmt.Sprintf("a requester WITHOUT the session key got %d bytes accepted as application data (kind %d)", len(so.appMsg), kind)
	}
	// what the server sent after the reply must be unreadable without the key
	sw := sc.Written()
	if so.wrote && so.probeAt < len(sw) {
		if bytes.Contains(bytes.Join(sw[so.probeAt:], nil), []byte(serverProbe)) {
			return "server sent application data in the clear on a resumed connection"
		}
		if !refOpensWith(s.key, sw, so.probeAt, cc.Written()[:1], []byte(serverProbe)) {
			return "the server's first frame after the resumption reply does not open under the reference codec with the session key"
		}
		if refOpensWith(kit.Pattern(32, 6666), sw, so.probeAt, cc.Written()[:1], []byte(serverProbe)) {
			return "the server's frame opens with a wrong key"
		}
	}
	return ""
}

// replay: recorded bytes of one direction of an earlier resumed connection against a fresh connection.
func (w *world) replay(s *sess, variant int) string {
	if len(s.recs) == 0 {
		return ""
	}
	var rec recording
	if variant < 0 { // the most recent recording, client direction, whole
		rec = s.recs[len(s.recs)-1]
		variant = 0
	} else {
		rec = s.recs[variant%len(s.recs)]
	}
	w.stats.replays++
	if (variant/7)%2 == 0 {
		// client->server direction against the real server
		frames := rec.c2s
		cut := len(frames)
		if (variant/3)%2 == 1 {
			cut = 1 + variant%len(frames)
		}
		pa, pb := kit.NextPorts()
		cc, sc := kit.NewBufPipe(pa, pb)
		for _, f := range frames[:cut] {
			_, _ = cc.Write(f)
		}
		var so *srvOut
		done := make(chan struct{})
		go func() { so = runServer(sc, true); close(done) }()
		select {
		case <-done:
		case <-time.After(1200 * time.Millisecond):
		}
		_ = cc.Close()
		<-done
		_ = sc.Close()
		if so.err == nil && so.appErr == nil && so.appMsg != nil {
			// Known finding, excluded by construction and counted: when the recorded requester did
			// not ask for a reply, nothing fresh from the server enters the exchange.
			if rec.legacy && ev.Known("replay/client-direction/no-reply-requested") {
				return ""
			}
			return fmt.Sprintf("REPLAY accepted: the recorded client->server bytes of an earlier resumed connection (%d of %d frames) were replayed on a new connection and the server handed %q to the application", cut, len(frames), so.appMsg)
		}
		return ""
	}
	// server->client direction against a fresh honest client holding the session
	pa, pb := kit.NextPorts()
	cc, sc := kit.NewBufPipe(pa, pb)
	go func() {
		// the replayer: wait for the client's request, then play the recorded server bytes
		buf := make([]byte, 65536)
		_, _ = sc.Read(buf)
		for _, f := range rec.s2c {
			_, _ = sc.Write(f)
		}
	}()
	ctx, cancel := context.WithTimeout(context.Background(), 1500*time.Millisecond)
	defer cancel()
	cst := stream.NewStream(cc)
	a := security.NewAuthenticator(s.ccfg, cst)
	_, err := a.ClientHandshake(ctx)
	var got []byte
	var rerr error
	if err == nil && a.WasSessionResumed() {
		got, rerr = cst.ReceiveCompleteMessage(ctx)
	}
	_ = cc.Close()
	_ = sc.Close()
	if !s.alive || !s.hasKey {
		// the client's cache entry may be gone; nothing to assert beyond no panic
	}
	if err == nil && a.WasSessionResumed() && rerr == nil && got != nil {
		return fmt.Sprintf("REPLAY accepted: the recorded server->client bytes of an earlier resumed connection were replayed to a fresh client, which handed %q to the application", got)
	}
	// a failed resumption invalidates the client's cached session: re-establish so the history can go on
	return ""
}

func runCase(c Case) (string, *world) {
	security.ClearSessionCache()
	ownCache = nil
	if c.Own {
		ownCache = security.NewSessionCache()
	}
	mapIdentity = c.Map
	w := &world{}
	n := 0
	for oi, op := range c.Ops {
		var v string
		var s *sess
		if len(w.sessions) > 0 {
			s = w.sessions[op.S%len(w.sessions)]
		}
		switch op.K {
		case "establish":
			if len(w.sessions) < 3 {
				v = w.establish(op.V)
			}
		case "resume":
			if s != nil {
				n++
				v = w.honestResume(s, n)
			}
		case "expire":
			if s != nil && s.alive {
				if e := findEntry(s.sid); e != nil {
					e.VerifSetExpiration(time.Now().Add(-time.Duration(1+op.V%5) * time.Second))
					if op.V%2 == 0 {
						security.InvalidateExpiredSessions()
						if ownCache != nil {
							ownCache.InvalidateExpired()
						}
					}
				}
				s.alive, s.expired = false, true
			}
		case "invalidate":
			if s != nil && s.alive {
				// the session was filed by the handshake in the global cache: invalidating it there kills it;
				// some applications also clear their own cache, which must make no difference
				security.InvalidateSession(s.sid)
				if ownCache != nil && (op.V%2 == 1 || s.minted) { // a minted session was filed in the server's own cache by the application
					ownCache.Invalidate(s.sid)
				}
				s.alive = false
			}
		case "invalidate-inflight":
			// the session is invalidated while a resumption of it is in flight (after the server looked it up,
			// just before it writes its reply): that resumption may complete, but the session stays dead
			if s != nil && s.alive && s.hasKey {
				n++
				v = w.resumeWithInvalidation(s, n)
			}
		case "attack":
			if s != nil {
				if !s.alive {
					w.stats.deadResumes++
				}
				v = w.attack(s, op.V%9, op.RR, op.X)
			}
		case "replay":
			if s != nil {
				v = w.replay(s, op.V)
			}
		}
		if v != "" {
			return fmt.Sprintf("op %d (%s session %d variant %d rr=%v): %s", oi, op.K, op.S, op.V, op.RR, v), w
		}
	}
	return "", w
}

func genCase(t *rapid.T) Case {
	var c Case
	c.Own = rapid.Bool().Draw(t, "own")
	c.Map = rapid.Bool().Draw(t, "map")
	c.Ops = append(c.Ops, Op{K: "establish", V: rapid.IntRange(0, 8).Draw(t, "v0")})
	n := rapid.IntRange(3, 12).Draw(t, "nops")
	for i := 0; i < n; i++ {
		k := rapid.SampledFrom([]string{"establish", "resume", "resume", "expire", "invalidate", "invalidate-inflight", "attack", "attack", "attack", "replay", "replay"}).Draw(t, "op")
		x := 0
		if k == "attack" && rapid.Bool().Draw(t, "hostileAd") {
			x = rapid.IntRange(1, len(resumeExtras)-1).Draw(t, "x")
		}
		c.Ops = append(c.Ops, Op{K: k, S: rapid.IntRange(0, 2).Draw(t, "s"), V: rapid.IntRange(0, 40).Draw(t, "v"), RR: rapid.Bool().Draw(t, "rr"), X: x})
	}
	return c
}

func record(c Case, w *world) {
	k := ""
	if w.stats.attacksAfterResume > 0 || w.stats.deadResumes > 0 || w.stats.replays > 0 {
		b, _ := json.Marshal(c)
		k = string(b)
	}
	ev.Case("history", k)
	ev.Count("attacks", int64(w.stats.attacks))
	ev.Count("attacks_after_honest_resume", int64(w.stats.attacksAfterResume))
	ev.Count("resume_attempts_on_dead_sessions", int64(w.stats.deadResumes))
	ev.Count("replays", int64(w.stats.replays))
}

func TestC06Histories(t *testing.T) {
	rapid.Check(t, func(t *rapid.T) {
		c := genCase(t)
		v, w := runCase(c)
		record(c, w)
		ev.Sample("history", c)
		if v != "" {
			js, _ := json.Marshal(c)
			t.Fatalf("C06 violated: %s\ncase: %s", v, js)
		}
	})
}

// TestC06Sweep: every attack kind at every point of a session's lifetime.
func TestC06Sweep(t *testing.T) {
	bad := 0
	for est := 0; est < 9; est++ {
		for _, life := range []string{"fresh", "resumed1", "resumed3", "expired-lazy", "expired-swept", "invalidated", "invalidated-inflight"} {
			for kind := 0; kind < 9; kind++ {
				for _, rr := range []bool{true, false} {
					for _, own := range []bool{false, true} {
						c := Case{Own: own, Map: (kind+est)%2 == 0, Ops: []Op{{K: "establish", V: est}}}
						switch life {
						case "resumed1":
							c.Ops = append(c.Ops, Op{K: "resume"})
						case "resumed3":
							c.Ops = append(c.Ops, Op{K: "resume"}, Op{K: "resume"}, Op{K: "resume"})
						case "expired-lazy":
							c.Ops = append(c.Ops, Op{K: "resume"}, Op{K: "expire", V: 1})
						case "expired-swept":
							c.Ops = append(c.Ops, Op{K: "expire", V: 2})
						case "invalidated":
							c.Ops = append(c.Ops, Op{K: "resume"}, Op{K: "invalidate"})
						}
						c.Ops = append(c.Ops, Op{K: "attack", V: kind, RR: rr}, Op{K: "resume"})
						if kind < 4 && rr {
							c.Ops = append(c.Ops, Op{K: "replay", V: kind}, Op{K: "replay", V: 7 + kind})
						}
						if kind == 0 && rr { // the scripted key holder's own connection (no nonce in its request), replayed whole
							c.Ops = append(c.Ops, Op{K: "replay", V: -1})
						}
						if kind == 0 && !rr {
							// a key holder resumed without asking for a reply: replay exactly that connection
							c.Ops = c.Ops[:len(c.Ops)-1]
							c.Ops = append(c.Ops, Op{K: "replay", V: -1})
						}
						v, w := runCase(c)
						record(c, w)
						if est == 0 && life == "resumed1" && kind == 1 && rr {
							ev.Sample("sweep", c)
						}
						if v != "" && bad < 6 {
							bad++
							kit.Violation("C06", v, c)
							t.Errorf("C06 violated: %s", v)
						}
					}
				}
			}
		}
	}
	// every hostile request-ad attribute set, for each kind of requester, on a live session
	for _, est := range []int{0, 1, 2, 3, 6, 7} {
		for x := 1; x < len(resumeExtras); x++ {
			for kind := 0; kind < 3; kind++ {
				for _, rr := range []bool{true, false} {
					for _, own := range []bool{false, true} {
						c := Case{Own: own, Ops: []Op{{K: "establish", V: est}, {K: "resume"}, {K: "attack", V: kind, RR: rr, X: x}, {K: "resume"}}}
						v, w := runCase(c)
						record(c, w)
						if v != "" && bad < 6 {
							bad++
							kit.Violation("C06", v, c)
							t.Errorf("C06 violated: %s", v)
						}
					}
				}
			}
		}
	}
	ev.Exhaustive("6 establishment kinds x 12 hostile request-ad attribute sets x {key holder, wrong key, no key} x {reply requested, not} x {global, own cache}")
	ev.Exhaustive("9 establishment kinds (4 negotiated with CLAIMTOBE/none, 2 minted from a claim id, 2 negotiated with TOKEN: with a cipher and without, 1 inherited without key material) x 7 lifetime points (incl. invalidated while a resumption was in flight) x 9 attack kinds x {reply requested, not} x {server on the global cache, server with its own cache}, each followed by an honest resume and replays of both directions")
}

func TestC06Replay(t *testing.T) {
	var c Case
	ok, err := kit.ReplayCase(&c)
	if !ok {
		t.Skip("no VERIF_REPLAY")
	}
	if err != nil {
		t.Fatal(err)
	}
	if v, _ := runCase(c); v != "" {
		t.Fatalf("C06 violated: %s", v)
	}
}

var _ = message.SecretMarker
