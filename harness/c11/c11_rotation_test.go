package c11

import (
	"context"
	"fmt"
	"os"
	"path/filepath"
	"strings"
	"sync"
	"testing"
	"time"

	"github.com/bbockelm/cedar/security"
	"github.com/bbockelm/cedar/stream"

	"verifharness/kit"
)

// tokenHandshake runs the scripted client (which knows the token's signature) against the real server.
func tokenHandshake(text string, sig []byte) (bool, string) {
	pa, pb := kit.NextPorts()
	cc, sc := kit.NewBufPipe(pa, pb)
	var sneg *security.SecurityNegotiation
	var serr error
	var wg sync.WaitGroup
	wg.Add(1)
	go func() {
		defer wg.Done()
		ctx, cancel := context.WithTimeout(context.Background(), 5*time.Second)
		defer cancel()
		sneg, serr = security.NewAuthenticator(serverCfg(), stream.NewStream(sc)).ServerHandshake(ctx)
		if serr != nil {
			_ = sc.Close()
		}
	}()
	o := kit.PeerOpts{AuthMethods: "TOKEN", CryptoMethods: "AES", SayAuth: "REQUIRED", SayEnc: "OPTIONAL", Command: 60011,
		TokenText: text, TokenClaimID: "alice@verif.test", TokenSig: sig}
	_, _ = kit.ScriptedClient(cc, o, 4*time.Second)
	_ = cc.Close()
	wg.Wait()
	if serr != nil {
		return false, ""
	}
	return true, sneg.User
}

// TestC11KeyRotation: "a signing key the server holds" is the key that is in the key directory (or pool key
// file) NOW. A key is used, then replaced under the same name: tokens under the old key stop verifying, tokens
// under the new one verify - standalone and in the exchange - and the same after the file is removed.
func TestC11KeyRotation(t *testing.T) {
	bad := 0
	fail := func(v string, c any) {
		if bad < 4 {
			bad++
			kit.Violation("C11", v, c)
			t.Errorf("C11 violated: %s", v)
		}
	}
	rounds := kit.Scale(2, 6)
	for r := 0; r < rounds; r++ {
		for _, where := range []string{"named", "pool"} {
			kid := fmt.Sprintf("rot%d_%d", os.Getpid(), r)
			path := filepath.Join(env.Dir, "keys", kid)
			pool := where == "pool"
			var saved []byte
			if pool {
				path = env.PoolFile
				saved, _ = os.ReadFile(path)
			}
			now := time.Now().Unix()
			mk := func(key []byte, sub string) (string, string, []byte) {
				hdr := map[string]any{"alg": "HS256", "typ": "JWT"}
				if !pool {
					hdr["kid"] = kid
				}
				full, sig := kit.RefSign(key, pool, hdr, map[string]any{"sub": sub, "iss": env.Issuer, "iat": now - 30, "exp": now + 3600, "jti": "rot"})
				return full, full[:strings.LastIndex(full, ".")], sig
			}
			keyLen := 32
			if pool {
				keyLen = 64
			}
			k1, k2 := kit.Pattern(keyLen, uint32(7000+r)), kit.Pattern(keyLen, uint32(8000+r))
			desc := map[string]any{"part": "key-rotation", "where": where, "round": r}
			check := func(stage string, key []byte, wantOK bool) {
				full, text, sig := mk(key, "alice@verif.test")
				_, err := security.VerifyIDToken(full, verifyCfg())
				if (err == nil) != wantOK {
					fail(fmt.Sprintf("%s key, %s: VerifyIDToken accept=%v, but the key the verifier holds now says accept=%v (err %v)", where, stage, err == nil, wantOK, err), desc)
				}
				ok, user := tokenHandshake(text, sig)
				if ok != wantOK {
					fail(fmt.Sprintf("%s key, %s: the server's TOKEN exchange accept=%v (identity %q), but the key it holds now says accept=%v", where, stage, ok, user, wantOK), desc)
				}
				ev.Case("key-rotation/"+where, fmt.Sprintf("rot:%s:%s:%d", where, stage, r))
			}
			_ = os.WriteFile(path, kit.Scramble(k1), 0o600)
			check("first key in place, token under it", k1, true)
			check("first key in place, token under the second", k2, false)
			_ = os.WriteFile(path, kit.Scramble(k2), 0o600)
			check("key replaced, token under the OLD key", k1, false)
			check("key replaced, token under the new key", k2, true)
			if pool {
				_ = os.WriteFile(path, saved, 0o600)
				check("original pool key restored, token under the second key", k2, false)
			} else {
				_ = os.Remove(path)
				check("key file removed, token under the key it held", k2, false)
			}
		}
	}
	ev.Exhaustive(fmt.Sprintf("%d rounds x {named key, pool key}: key used, replaced under the same name, removed/restored; standalone verification and the server side of the exchange at every stage", rounds))
}

// cachingReader is a CredentialReader of the kind the documentation invites: it reads each file once and hands
// out the SAME slice on every later call.
type cachingReader struct {
	mu    sync.Mutex
	cache map[string][]byte
	orig  map[string][]byte
}

func (r *cachingReader) ReadCredential(path string) ([]byte, error) {
	r.mu.Lock()
	defer r.mu.Unlock()
	if b, ok := r.cache[path]; ok {
		return b, nil
	}
	b, err := os.ReadFile(path)
	if err != nil {
		return nil, err
	}
	r.cache[path], r.orig[path] = b, append([]byte(nil), b...)
	return b, nil
}

// TestC11CachingReader: with a caching credential reader the n-th use of a signing key behaves like the first:
// the valid token verifies every time, a token under a key the server does not hold never does, and the
// reader's buffers come back untouched.
func TestC11CachingReader(t *testing.T) {
	rd := &cachingReader{cache: map[string][]byte{}, orig: map[string][]byte{}}
	credReader = rd
	defer func() { credReader = nil }()
	bad := 0
	fail := func(v string) {
		if bad < 4 {
			bad++
			kit.Violation("C11", v, map[string]any{"part": "caching-reader"})
			t.Errorf("C11 violated: %s", v)
		}
	}
	for _, spec := range []TokSpec{{"named", "ok", "future", "recent"}, {"pool-nokid", "ok", "future", "recent"}} {
		good := build(spec)
		foreignKey := kit.Scramble(env.RawKey) // what the key FILE holds: not a key the server holds
		if spec.Key != "named" {
			foreignKey = kit.Scramble(env.PoolKey)
		}
		hdr := map[string]any{"alg": "HS256", "typ": "JWT"}
		if spec.Key == "named" {
			hdr["kid"] = env.KeyID
		}
		now := time.Now().Unix()
		ffull, fsig := kit.RefSign(foreignKey, spec.Key != "named", hdr, map[string]any{"sub": "root@verif.test", "iss": env.Issuer, "iat": now - 30, "exp": now + 3600, "jti": "f"})
		ftext := ffull[:strings.LastIndex(ffull, ".")]
		for use := 1; use <= 6; use++ {
			if _, err := security.VerifyIDToken(good.full, verifyCfg()); err != nil {
				fail(fmt.Sprintf("use #%d of the %s key through a caching credential reader: the valid token is rejected: %v", use, spec.Key, err))
			}
			if _, err := security.VerifyIDToken(ffull, verifyCfg()); err == nil {
				fail(fmt.Sprintf("use #%d of the %s key through a caching credential reader: a token signed with the scrambled file contents (not a key the server holds) verifies", use, spec.Key))
			}
			if use%2 == 0 {
				if ok, _ := tokenHandshake(good.text, good.sig); !ok {
					fail(fmt.Sprintf("use #%d (%s key, caching reader): the exchange with the valid token fails", use, spec.Key))
				}
				if ok, user := tokenHandshake(ftext, fsig); ok {
					fail(fmt.Sprintf("use #%d (%s key, caching reader): the exchange accepts a token under a foreign key (identity %q)", use, spec.Key, user))
				}
			}
			ev.Case("caching-reader/"+spec.Key, fmt.Sprintf("cache:%s:%d", spec.Key, use))
		}
	}
	rd.mu.Lock()
	for p, b := range rd.cache {
		if string(b) != string(rd.orig[p]) {
			fail("the credential reader's buffer for " + filepath.Base(p) + " was modified by the library")
		}
	}
	rd.mu.Unlock()
}
