// Package c11 decides property C11: token authentication proves possession of
// a valid token in both directions, the recorded identity comes from the
// token's subject, and standalone verification accepts exactly the valid tokens.
package c11

import (
	"math"
	"github.com/bbockelm/cedar/message"
	"path/filepath"
	"os"
	"context"
	"encoding/base64"
	"encoding/binary"
	"encoding/json"
	"fmt"
	"strings"
	"sync"
	"testing"
	"time"

	"github.com/bbockelm/cedar/security"
	"github.com/bbockelm/cedar/stream"
	"pgregory.net/rapid"

	"verifharness/kit"
)

func TestMain(m *testing.M) { kit.Main(m) }

var ev = kit.Ev("C11")

func init() {
	ev.Rule("(1) scripted TOKEN client (reference AKEP2) against the real server over generated tokens (named/pool key, unknown key id, other key, with/without/non-string sub, exp and iat at and around the boundaries, non-numeric times) x " +
		"{knows the signature, does not} x claimed identity {= subject, different, empty}; (2) real client against a scripted TOKEN server that holds the key / another key / none; " +
		"(3) a field-aware relay between real client and real server applying ONE deviation to one field of the three AKEP2 messages (status codes, identities, every bit of the token text, RA/RB echoes, proofs: flipped, truncated, emptied; trailing bytes; dropped field); " +
		"(4) standalone VerifyIDToken on generated tokens and on every single-character mutation of valid ones against an independent verifier; " +
		"oracle: reference JWT/AKEP2 implementation decides must-reject / must-accept / either (times within 3 s of a boundary are 'either'); on success the server's identity is the user part of the token subject, never the claimed id; " +
		"non-trivial = any deviation other than none; distinct by (message, field, deviation) or token text")
}

var env = kit.NewTokenEnv()
var otherKey = kit.Pattern(32, 9911)

// ---------------------------------------------------------------------------
// token construction
// ---------------------------------------------------------------------------

type TokSpec struct {
	Key     string `json:"key"`  // "named", "pool-nokid", "pool-kid", "other", "unknown-kid"
	Sub     string `json:"sub"`  // "ok", "absent", "empty", "number"
	Exp     string `json:"exp"`  // "future", "absent", "past", "edge-", "edge+", "string", "float"
	Iat     string `json:"iat"`  // "recent", "absent", "old", "edge-", "edge+", "string", "future"
}

// The maximum token age comes from three places: an explicit SecurityConfig.TokenMaxAge, the
// SEC_TOKEN_MAX_AGE environment variable, or the 1 h default. setAge selects one; maxAge is the
// value the reference uses, cfgAge what the configurations carry.
var maxAge int64 = 900
var cfgAge = 900

var ageModes = []string{"explicit-900", "default-3600", "env-1500"}

func setAge(mode int) {
	switch mode % 3 {
	case 0:
		maxAge, cfgAge = 900, 900
		_ = os.Unsetenv("SEC_TOKEN_MAX_AGE")
	case 1:
		maxAge, cfgAge = 3600, 0
		_ = os.Unsetenv("SEC_TOKEN_MAX_AGE")
	case 2:
		maxAge, cfgAge = 1500, 0
		_ = os.Setenv("SEC_TOKEN_MAX_AGE", "1500")
	}
}

type builtTok struct {
	text     string // header.payload
	full     string // with signature
	sig      []byte // signature under the key the signer used
	mustFail bool
	either   bool
	sub      string
}

func build(s TokSpec) builtTok {
	now := time.Now().Unix()
	hdr := map[string]any{"alg": "HS256", "typ": "JWT"}
	raw, pool := env.RawKey, false
	b := builtTok{}
	switch s.Key {
	case "named":
		hdr["kid"] = env.KeyID
	case "pool-nokid":
		raw, pool = env.PoolKey, true
	case "pool-kid":
		hdr["kid"] = "POOL"
		raw, pool = env.PoolKey, true
	case "other":
		hdr["kid"] = env.KeyID
		raw = otherKey
		b.mustFail = true
	case "unknown-kid":
		hdr["kid"] = "nosuchkey"
		raw = otherKey
		b.mustFail = true
	case "kid-sibling-dir": // a key that exists, but outside the key directory (prefix-named sibling)
		hdr["kid"] = "../keys.bak/evil"
		raw = env.EvilKey
		b.mustFail = true
	case "kid-abs-path":
		hdr["kid"] = filepath.Join(env.Dir, "keys.bak", "evil")
		raw = env.EvilKey
		b.mustFail = true
	case "kid-parent-file": // the pool key file addressed as a named key
		hdr["kid"] = "../pool_key"
		raw = env.PoolKey
		b.mustFail = true
	case "kid-dotdot-same": // a path that leaves and re-enters the key directory
		hdr["kid"] = "../keys/" + env.KeyID
		b.either = true
	}
	pl := map[string]any{"iss": env.Issuer, "jti": "j1"}
	switch s.Sub {
	case "ok":
		pl["sub"] = "alice@verif.test"
		b.sub = "alice@verif.test"
	case "empty":
		pl["sub"] = ""
		b.mustFail = true
	case "number":
		pl["sub"] = 12345
		b.mustFail = true
	case "absent":
		b.mustFail = true
	}
	switch s.Exp {
	case "future":
		pl["exp"] = now + 7200
	case "past":
		pl["exp"] = now - 100
		b.mustFail = true
	case "edge-":
		pl["exp"] = now - 1
		b.either = true
	case "edge+":
		pl["exp"] = now + 2
		b.either = true
	case "string":
		pl["exp"] = "tomorrow"
		b.mustFail = true
	case "instant":
		// expires at the next full second; build() returns once the clock has reached it, so from the caller's
		// point of view the token is at (or just past) its expiry instant: "exp" is the time ON or after which a
		// token must not be accepted, so there is nothing fuzzy about this one however long the caller then takes
		pl["exp"] = now + 1
		b.mustFail = true
		defer func() {
			for time.Now().Unix() < now+1 {
				time.Sleep(3 * time.Millisecond)
			}
		}()
	case "float":
		pl["exp"] = float64(now) + 7200.5
	}
	switch s.Iat {
	case "recent":
		pl["iat"] = now - 30
	case "old":
		pl["iat"] = now - maxAge - 600
		b.mustFail = true
	case "edge-":
		pl["iat"] = now - maxAge - 1
		b.either = true
	case "edge+":
		pl["iat"] = now - maxAge + 2
		b.either = true
	case "string":
		pl["iat"] = "yesterday"
		b.mustFail = true
	case "future":
		pl["iat"] = now + 500
	}
	b.full, b.sig = kit.RefSign(raw, pool, hdr, pl)
	b.text = b.full[:strings.LastIndex(b.full, ".")]
	return b
}

var keyKinds = []string{"named", "pool-nokid", "pool-kid", "other", "unknown-kid", "kid-sibling-dir", "kid-abs-path", "kid-parent-file", "kid-dotdot-same"}
var subKinds = []string{"ok", "absent", "empty", "number"}
var expKinds = []string{"future", "absent", "past", "edge-", "edge+", "string", "float"}
var iatKinds = []string{"recent", "absent", "old", "edge-", "edge+", "string", "future"}

func serverCfg() *security.SecurityConfig {
	c := kit.BaseConfig(security.SecurityRequired, security.SecurityOptional, security.AuthToken)
	c.SessionCache = nil
	env.Apply(nil, c)
	c.TokenMaxAge = cfgAge
	c.Credentials = credReader
	return c
}

// ---------------------------------------------------------------------------
// (1) scripted client against the real server
// ---------------------------------------------------------------------------

type ClientCase struct {
	Tok      TokSpec `json:"tok"`
	KnowsSig bool    `json:"knows_sig"`
	Claim    string  `json:"claim"` // "sub", "other", "empty"
}

func runClientCase(c ClientCase) string {
	bt := build(c.Tok)
	pa, pb := kit.NextPorts()
	cc, sc := kit.NewBufPipe(pa, pb)
	var sneg *security.SecurityNegotiation
	var serr error
	var wg sync.WaitGroup
	wg.Add(1)
	go func() {
		defer wg.Done()
		ctx, cancel := context.WithTimeout(context.Background(), 3*time.Second)
		defer cancel()
		sneg, serr = security.NewAuthenticator(serverCfg(), stream.NewStream(sc)).ServerHandshake(ctx)
		if serr != nil {
			_ = sc.Close()
		}
	}()
	claim := "alice@verif.test"
	switch c.Claim {
	case "other":
		claim = "root@verif.test"
	case "empty":
		claim = ""
	}
	o := kit.PeerOpts{AuthMethods: "TOKEN", CryptoMethods: "AES", SayAuth: "REQUIRED", SayEnc: "OPTIONAL", Command: 60011,
		TokenText: bt.text, TokenClaimID: claim}
	if c.KnowsSig {
		o.TokenSig = bt.sig
	}
	plog, _ := kit.ScriptedClient(cc, o, 2*time.Second)
	_ = cc.Close()
	wg.Wait()
	mustFail := bt.mustFail || !c.KnowsSig
	ok := serr == nil
	if ok && mustFail && !bt.either {
		return fmt.Sprintf("the server accepted a TOKEN authentication that must fail (token %+v, client knows the signature: %v, claimed id %q); recorded identity %q", c.Tok, c.KnowsSig, claim, sneg.User)
	}
	if ok {
		if !sneg.Authentication || sneg.NegotiatedAuth != security.AuthToken {
			return fmt.Sprintf("server succeeded but reports Authentication=%v method=%s", sneg.Authentication, sneg.NegotiatedAuth)
		}
		if sneg.User != "alice" && sneg.User != "alice@verif.test" {
			return fmt.Sprintf("the server recorded identity %q; the token's subject is %q and the client claimed %q", sneg.User, bt.sub, claim)
		}
		if c.KnowsSig && !plog.PeerProofOK {
			return "the server's proof does not match the reference AKEP2 computation although the exchange succeeded"
		}
	}
	if !ok && !mustFail && !bt.either && c.Claim == "sub" {
		return fmt.Sprintf("non-vacuity: the server rejected a valid token presented with correct proofs: %v (peer: %v)", serr, plog.Err)
	}
	return ""
}

// ---------------------------------------------------------------------------
// (2) real client against a scripted server
// ---------------------------------------------------------------------------

type ServerCase struct {
	ServerKey string `json:"server_key"` // "right", "other", "none"
	Pool      bool   `json:"pool"`
}

func runServerCase(c ServerCase) string {
	spec := TokSpec{Key: "named", Sub: "ok", Exp: "future", Iat: "recent"}
	if c.Pool {
		spec.Key = "pool-nokid"
	}
	bt := build(spec)
	ccfg := kit.BaseConfig(security.SecurityRequired, security.SecurityOptional, security.AuthToken)
	ccfg.Token = bt.full
	ccfg.PeerName = "<scripted-token-server>"
	pa, pb := kit.NextPorts()
	cc, sc := kit.NewBufPipe(pa, pb)
	o := kit.PeerOpts{AuthMethods: "TOKEN", CryptoMethods: "AES", SayAuth: "YES", SayEnc: "YES"}
	switch c.ServerKey {
	case "right":
		o.TokenRawKey, o.TokenPool = env.RawKey, false
		if c.Pool {
			o.TokenRawKey, o.TokenPool = env.PoolKey, true
		}
	case "other":
		o.TokenRawKey = otherKey
	}
	var plog *kit.PeerLog
	var wg sync.WaitGroup
	wg.Add(1)
	go func() { defer wg.Done(); plog, _ = kit.ScriptedServer(sc, o, 2*time.Second) }()
	ctx, cancel := context.WithTimeout(context.Background(), 3*time.Second)
	defer cancel()
	neg, err := security.NewAuthenticator(ccfg, stream.NewStream(cc)).ClientHandshake(ctx)
	if err != nil {
		_ = cc.Close()
	}
	wg.Wait()
	_ = cc.Close()
	if c.ServerKey != "right" && err == nil {
		return fmt.Sprintf("the client accepted a server that did not demonstrate knowledge of the token's signature (server key: %s); reported method %s", c.ServerKey, neg.NegotiatedAuth)
	}
	if c.ServerKey == "right" {
		if err != nil {
			return fmt.Sprintf("non-vacuity: the client rejected a server holding the right key: %v (peer %v)", err, plog.Err)
		}
		if !plog.PeerProofOK {
			return "the client's proof does not match the reference AKEP2 computation"
		}
		if !neg.Authentication || neg.NegotiatedAuth != security.AuthToken {
			return fmt.Sprintf("client succeeded but reports Authentication=%v method=%s", neg.Authentication, neg.NegotiatedAuth)
		}
	}
	return ""
}

// ---------------------------------------------------------------------------
// (3) relay deviations between two real endpoints
// ---------------------------------------------------------------------------

type field struct {
	kind byte // 'I' int, 'S' string, 'B' bytes (length given by preceding int)
	name string
}

var layouts = map[string][]field{
	"step1": {{'I', "status"}, {'I', "idlen"}, {'S', "id"}, {'S', "token"}, {'I', "ralen"}, {'B', "ra"}},
	"step2": {{'I', "status"}, {'I', "alen"}, {'S', "a"}, {'I', "blen"}, {'S', "b"}, {'I', "ralen"}, {'B', "ra"}, {'I', "rblen"}, {'B', "rb"}, {'I', "maclen"}, {'B', "mac"}},
	"step3": {{'I', "status"}, {'I', "alen"}, {'S', "a"}, {'I', "rblen"}, {'B', "rb"}, {'I', "maclen"}, {'B', "mac"}},
}

// where the three AKEP2 messages sit in the TOKEN handshake
var msgPos = map[string][2]int{"step1": {0, 2}, "step2": {1, 2}, "step3": {0, 3}}

type fval struct {
	i int64
	b []byte
}

func decode(layout []field, payload []byte) ([]fval, bool) {
	var out []fval
	var lastInt int64
	for _, f := range layout {
		switch f.kind {
		case 'I':
			if len(payload) < 8 {
				return nil, false
			}
			v := int64(binary.BigEndian.Uint64(payload))
			payload = payload[8:]
			out = append(out, fval{i: v})
			lastInt = v
		case 'S':
			i := strings.IndexByte(string(payload), 0)
			if i < 0 {
				return nil, false
			}
			out = append(out, fval{b: append([]byte(nil), payload[:i]...)})
			payload = payload[i+1:]
		case 'B':
			n := int(lastInt)
			if n < 0 || n > len(payload) {
				return nil, false
			}
			out = append(out, fval{b: append([]byte(nil), payload[:n]...)})
			payload = payload[n:]
		}
	}
	return out, len(payload) == 0
}

func encode(layout []field, vals []fval, upTo int) []byte {
	var mb kit.MsgBuf
	for i, f := range layout {
		if i >= upTo {
			break
		}
		switch f.kind {
		case 'I':
			mb.Int(vals[i].i)
		case 'S':
			mb.Str(string(vals[i].b))
		case 'B':
			mb.Raw(vals[i].b)
		}
	}
	return mb.B
}

type Dev struct {
	Msg   string `json:"msg"`
	Field int    `json:"field"`
	Kind  string `json:"kind"` // int:-1/1/2/+1 ; flip:<byte>:<bit> ; trunc ; trunc-keep-len ; empty ; append ; trailing ; drop-last
	A, B  int
}

func applyDev(d Dev, frame []byte) ([][]byte, bool) {
	layout := layouts[d.Msg]
	vals, ok := decode(layout, frame[5:])
	if !ok {
		return nil, false
	}
	upTo := len(layout)
	extra := []byte(nil)
	f := d.Field
	fixLen := func() {
		if f > 0 && layout[f-1].kind == 'I' && (layout[f].kind == 'B' || layout[f].name == "id" || layout[f].name == "a" || layout[f].name == "b") {
			vals[f-1].i = int64(len(vals[f].b))
		}
	}
	switch d.Kind {
	case "int":
		if layout[f].kind != 'I' || vals[f].i == int64(d.A) {
			return nil, false
		}
		vals[f].i = int64(d.A)
	case "intadd":
		if layout[f].kind != 'I' || d.A == 0 {
			return nil, false
		}
		vals[f].i += int64(d.A)
	case "flip":
		if layout[f].kind == 'I' || d.A >= len(vals[f].b) {
			return nil, false
		}
		vals[f].b[d.A] ^= 1 << uint(d.B)
		if layout[f].kind == 'S' && vals[f].b[d.A] == 0 {
			return nil, false // would terminate the string; covered by trunc
		}
	case "trunc":
		if layout[f].kind == 'I' || len(vals[f].b) == 0 {
			return nil, false
		}
		vals[f].b = vals[f].b[:len(vals[f].b)-1]
		fixLen()
	case "trunc-keep-len":
		if layout[f].kind != 'B' || len(vals[f].b) == 0 {
			return nil, false
		}
		vals[f].b = vals[f].b[:len(vals[f].b)-1]
	case "empty":
		if layout[f].kind == 'I' || len(vals[f].b) == 0 {
			return nil, false
		}
		vals[f].b = nil
		fixLen()
	case "append":
		if layout[f].kind == 'I' {
			return nil, false
		}
		vals[f].b = append(vals[f].b, 'x')
		fixLen()
	case "trailing":
		extra = []byte{1, 2, 3}
	case "drop-last":
		upTo = len(layout) - 1
	}
	body := append(encode(layout, vals, upTo), extra...)
	return [][]byte{kit.BuildFrame(frame[0], body)}, true
}

// neutral deviations: the statement does not say what must happen
func neutral(d Dev) bool {
	if d.Kind == "trailing" {
		return true
	}
	name := layouts[d.Msg][d.Field].name
	// the identity claimed in step 1 is not what the server records (it uses the token's subject)
	return d.Msg == "step1" && (name == "id" || name == "idlen")
}

func runDev(d Dev) (string, bool) {
	ccfg := kit.BaseConfig(security.SecurityRequired, security.SecurityRequired, security.AuthToken)
	env.Apply(ccfg, nil)
	ccfg.PeerName = "<relay>"
	scfg := serverCfg()
	applied := false
	pos := msgPos[d.Msg]
	var mutate func(dir, idx int, f []byte) [][]byte
	if d.Msg != "" {
		mutate = func(dir, idx int, f []byte) [][]byte {
			if dir == pos[0] && idx == pos[1] {
				out, ok := applyDev(d, f)
				if ok {
					applied = true
					return out
				}
			}
			return nil
		}
	}
	r := kit.RunMITM(ccfg, scfg, mutate)
	if d.Msg == "" {
		if !r.COK || !r.SOK || !r.CAccept || !r.SAccept {
			return fmt.Sprintf("the unmodified TOKEN handshake did not succeed both ways: client %v server %v", r.CErr, r.SErr), true
		}
		if r.SNeg.User != "alice" && r.SNeg.User != "alice@verif.test" {
			return fmt.Sprintf("unmodified exchange: server recorded identity %q, token subject is alice@verif.test", r.SNeg.User), true
		}
		return "", true
	}
	if !applied {
		return "", false
	}
	if neutral(d) {
		if r.SOK && r.SNeg.User != "alice" && r.SNeg.User != "alice@verif.test" {
			return fmt.Sprintf("after a change of the claimed identity the server recorded %q instead of the token's subject", r.SNeg.User), true
		}
		return "", true
	}
	if r.SOK {
		return fmt.Sprintf("the server reported success although %s.%s was altered in transit (%s)", d.Msg, layouts[d.Msg][d.Field].name, d.Kind), true
	}
	if r.COK {
		return fmt.Sprintf("the client reported success although %s.%s was altered in transit (%s)", d.Msg, layouts[d.Msg][d.Field].name, d.Kind), true
	}
	return "", true
}

func allDevs() []Dev {
	var out []Dev
	tokLen := len(env.Token) - 44 // header.payload text
	for _, msg := range []string{"step1", "step2", "step3"} {
		for fi, f := range layouts[msg] {
			switch f.kind {
			case 'I':
				// (the wire integer is 64 bits wide: values that only differ from an acceptable one above bit 31 included)
				for _, v := range []int{-1, 1, 2, 7, 255, 257, 1 << 32, 9 << 32, -(5 << 32), 1 << 40, math.MaxInt64, math.MinInt64} {
					out = append(out, Dev{Msg: msg, Field: fi, Kind: "int", A: v})
				}
				for _, v := range []int{1 << 32, -(1 << 32), 3 << 33, 1 << 62} {
					out = append(out, Dev{Msg: msg, Field: fi, Kind: "intadd", A: v})
				}
			default:
				for _, k := range []string{"trunc", "trunc-keep-len", "empty", "append"} {
					out = append(out, Dev{Msg: msg, Field: fi, Kind: k})
				}
				n := 256
				if f.name == "token" {
					n = tokLen
				} else if f.kind == 'S' {
					n = 20
				} else if f.name == "mac" {
					n = 20
				}
				stride := 1
				if !kit.Thorough() && f.name != "mac" {
					stride = 5
				}
				for i := 0; i < n; i += stride {
					for bit := 0; bit < 8; bit++ {
						if !kit.Thorough() && (bit+i)%3 != 0 {
							continue
						}
						out = append(out, Dev{Msg: msg, Field: fi, Kind: "flip", A: i, B: bit})
					}
				}
			}
		}
		out = append(out, Dev{Msg: msg, Kind: "trailing"}, Dev{Msg: msg, Kind: "drop-last"})
	}
	return out
}

func parallel(n int, f func(i int)) {
	sem := make(chan struct{}, 12)
	var wg sync.WaitGroup
	for i := 0; i < n; i++ {
		if i%kit.NShards() != kit.Shard() {
			continue
		}
		wg.Add(1)
		sem <- struct{}{}
		go func(i int) { defer wg.Done(); defer func() { <-sem }(); f(i) }(i)
	}
	wg.Wait()
}

func TestC11Exchange(t *testing.T) {
	var mu sync.Mutex
	bad := 0
	report := func(v string, c any) {
		mu.Lock()
		defer mu.Unlock()
		if bad < 8 {
			kit.Violation("C11", v, c)
			t.Errorf("C11 violated: %s", v)
		}
		bad++
	}
	// (1)
	var ccs []ClientCase
	for _, k := range keyKinds {
		for _, s := range subKinds {
			for _, e := range expKinds {
				for _, i := range iatKinds {
					if (e != "future" && e != "absent") && (i != "recent") {
						continue // one time deviation at a time
					}
					for _, knows := range []bool{true, false} {
						for _, cl := range []string{"sub", "other", "empty"} {
							if !knows && cl != "sub" {
								continue
							}
							ccs = append(ccs, ClientCase{Tok: TokSpec{k, s, e, i}, KnowsSig: knows, Claim: cl})
						}
					}
				}
			}
		}
	}
	// the token-age limit from the 1 h default and from SEC_TOKEN_MAX_AGE (sequential passes: the
	// environment is process-wide), for the cases whose verdict depends on it
	for mode := 1; mode <= 2; mode++ {
		setAge(mode)
		var aged []ClientCase
		for _, c := range ccs {
			if (c.Tok.Iat == "old" || c.Tok.Iat == "edge-" || c.Tok.Iat == "edge+" || c.Tok.Iat == "recent") && c.Tok.Exp == "future" && c.Tok.Sub == "ok" && c.KnowsSig && c.Claim == "sub" {
				aged = append(aged, c)
			}
		}
		parallel(len(aged), func(i int) {
			v := runClientCase(aged[i])
			js, _ := json.Marshal(aged[i])
			ev.Case("scripted-client/"+ageModes[mode], ageModes[mode]+string(js))
			if v != "" {
				report(ageModes[mode]+": "+v, map[string]any{"part": "client", "case": aged[i], "age_mode": mode})
			}
		})
	}
	setAge(0)
	parallel(len(ccs), func(i int) {
		v := runClientCase(ccs[i])
		js, _ := json.Marshal(ccs[i])
		k := string(js)
		if ccs[i].Tok == (TokSpec{"named", "ok", "future", "recent"}) && ccs[i].KnowsSig && ccs[i].Claim == "sub" {
			k = ""
		}
		ev.Case("scripted-client", k)
		if i == 7 {
			ev.Sample("scripted-client", ccs[i])
		}
		if v != "" {
			report(v, map[string]any{"part": "client", "case": ccs[i]})
		}
	})
	// (2)
	var scs []ServerCase
	for _, sk := range []string{"right", "other", "none"} {
		for _, pool := range []bool{false, true} {
			scs = append(scs, ServerCase{sk, pool})
		}
	}
	parallel(len(scs), func(i int) {
		v := runServerCase(scs[i])
		js, _ := json.Marshal(scs[i])
		ev.Case("scripted-server", string(js))
		if v != "" {
			report(v, map[string]any{"part": "server", "case": scs[i]})
		}
	})
	// (3)
	if v, _ := runDev(Dev{}); v != "" {
		report(v, map[string]any{"part": "relay", "case": "baseline"})
	}
	devs := allDevs()
	parallel(len(devs), func(i int) {
		v, applied := runDev(devs[i])
		js, _ := json.Marshal(devs[i])
		k := ""
		if applied {
			k = string(js)
		}
		ev.Case("relay:"+devs[i].Msg+"/"+devs[i].Kind, k)
		if i == 40 {
			ev.Sample("relay-deviation", devs[i])
		}
		if v != "" {
			report(v, map[string]any{"part": "relay", "case": devs[i]})
		}
	})
	ev.Exhaustive(fmt.Sprintf("%d scripted-client cases (token kinds x knowledge x claimed id), 6 scripted-server cases, %d single-field relay deviations over the three AKEP2 messages", len(ccs), len(devs)))
}

// ---------------------------------------------------------------------------
// (4) standalone verification
// ---------------------------------------------------------------------------

// refVerify is the independent verifier. It returns accept, and whether the verdict is time-fuzzy.
func refVerify(tok string) (accept bool, fuzzy bool) {
	parts := strings.Split(strings.TrimSpace(tok), ".")
	if len(parts) != 3 {
		return false, false
	}
	hb, err := base64.RawURLEncoding.DecodeString(parts[0])
	if err != nil {
		return false, false
	}
	var hdr map[string]any
	if json.Unmarshal(hb, &hdr) != nil || hdr == nil {
		return false, false
	}
	kid, _ := hdr["kid"].(string)
	var raw []byte
	pool := false
	switch kid {
	case "", "POOL":
		raw, pool = env.PoolKey, true
	case env.KeyID:
		raw = env.RawKey
	default:
		keys := filepath.Join(env.Dir, "keys")
		if filepath.Clean(filepath.Join(keys, kid)) == filepath.Join(keys, env.KeyID) {
			return false, true // another spelling of a key the verifier holds: either verdict is defensible
		}
		return false, false
	}
	_, want := kit.RefSignParts(raw, pool, parts[0], parts[1])
	got, err := base64.RawURLEncoding.DecodeString(parts[2])
	if err != nil || string(got) != string(want) {
		return false, false
	}
	pb, err := base64.RawURLEncoding.DecodeString(parts[1])
	if err != nil {
		return false, false
	}
	var pl map[string]any
	if json.Unmarshal(pb, &pl) != nil || pl == nil {
		return false, false
	}
	now := time.Now().Unix()
	num := func(v any) (int64, bool) {
		f, ok := v.(float64)
		return int64(f), ok
	}
	if e, ok := pl["exp"]; ok {
		x, isNum := num(e)
		if !isNum {
			return false, false
		}
		if d := x - now; d > -3 && d < 3 {
			fuzzy = true
		} else if now >= x {
			return false, false
		}
	}
	if i, ok := pl["iat"]; ok {
		x, isNum := num(i)
		if !isNum {
			return false, false
		}
		age := now - x
		if d := age - maxAge; d > -3 && d < 3 {
			fuzzy = true
		} else if age > maxAge {
			return false, false
		}
	}
	s, _ := pl["sub"].(string)
	if s == "" {
		return false, false
	}
	return true, fuzzy
}

// credReader, when set, is the CredentialReader every verifier/server configuration of this package carries
var credReader security.CredentialReader

func verifyCfg() *security.SecurityConfig {
	c := &security.SecurityConfig{TokenMaxAge: cfgAge, Credentials: credReader}
	env.Apply(nil, c)
	return c
}

func checkVerify(tok string) string {
	want, fuzzy := refVerify(tok)
	claims, err := security.VerifyIDToken(tok, verifyCfg())
	got := err == nil
	if fuzzy {
		return ""
	}
	if got != want {
		return fmt.Sprintf("VerifyIDToken accept=%v (err %v) but the reference verifier says accept=%v for token %q", got, err, want, tok)
	}
	if got {
		parts := strings.Split(strings.TrimSpace(tok), ".")
		pb, _ := base64.RawURLEncoding.DecodeString(parts[1])
		var pl map[string]any
		_ = json.Unmarshal(pb, &pl)
		if claims.Subject != pl["sub"] {
			return fmt.Sprintf("returned subject %q differs from the payload's %v", claims.Subject, pl["sub"])
		}
	}
	return ""
}

func TestC11VerifyGenerated(t *testing.T) {
	rapid.Check(t, func(t *rapid.T) {
		spec := TokSpec{rapid.SampledFrom(keyKinds).Draw(t, "key"), rapid.SampledFrom(subKinds).Draw(t, "sub"),
			rapid.SampledFrom(expKinds).Draw(t, "exp"), rapid.SampledFrom(iatKinds).Draw(t, "iat")}
		mode := rapid.IntRange(0, 2).Draw(t, "ageMode")
		setAge(mode)
		defer setAge(0)
		bt := build(spec)
		tok := bt.full
		mut := rapid.SampledFrom([]string{"none", "none", "char", "char", "char", "drop-sig", "empty-sig", "trunc", "space", "extra-part", "swap-sig"}).Draw(t, "mut")
		switch mut {
		case "char":
			i := rapid.IntRange(0, len(tok)-1).Draw(t, "pos")
			alphabet := "ABCDEFGHIJKLMNOPQRSTUVWXYZabcdefghijklmnopqrstuvwxyz0123456789-_.=+/"
			c := alphabet[rapid.IntRange(0, len(alphabet)-1).Draw(t, "ch")]
			tok = tok[:i] + string(c) + tok[i+1:]
		case "drop-sig":
			tok = bt.text
		case "empty-sig":
			tok = bt.text + "."
		case "trunc":
			tok = tok[:rapid.IntRange(0, len(tok)).Draw(t, "cut")]
		case "space":
			tok = " " + tok + "\n"
		case "extra-part":
			tok = tok + ".AAAA"
		case "swap-sig":
			other := build(TokSpec{"named", "ok", "future", "recent"})
			tok = bt.text + other.full[strings.LastIndex(other.full, "."):]
		}
		v := checkVerify(tok)
		k := ""
		if mut != "none" || spec != (TokSpec{"named", "ok", "future", "recent"}) {
			k = tok
		}
		ev.Case("verify:"+mut+"/"+ageModes[mode], k)
		ev.Sample("verify", map[string]any{"spec": spec, "mutation": mut})
		if v != "" {
			t.Fatalf("C11 violated: %s", v)
		}
	})
}

// TestC11ExpiryInstant: a correctly signed token presented in the very second its "exp" names (and later) is
// expired: standalone verification and the server side of the exchange both refuse it.
func TestC11ExpiryInstant(t *testing.T) {
	rounds := kit.Scale(2, 8)
	var mu sync.Mutex
	bad := 0
	var specs []TokSpec
	for r := 0; r < rounds; r++ {
		for _, k := range []string{"named", "pool-nokid", "pool-kid"} {
			specs = append(specs, TokSpec{k, "ok", "instant", "recent"})
		}
	}
	var wg sync.WaitGroup
	for i, spec := range specs {
		wg.Add(1)
		go func(i int, spec TokSpec) {
			defer wg.Done()
			time.Sleep(time.Duration(i*137%900) * time.Millisecond) // spread the attempts over the second
			bt := build(spec)
			at := time.Now()
			_, err := security.VerifyIDToken(bt.full, verifyCfg())
			v := ""
			if err == nil {
				v = fmt.Sprintf("VerifyIDToken accepted a token %.3f s after the start of the second its exp claim names (key kind %s)", float64(at.UnixNano()%1e9)/1e9, spec.Key)
			}
			if v == "" {
				v = runClientCase(ClientCase{Tok: spec, KnowsSig: true, Claim: "sub"})
			}
			ev.Case("expiry-instant", fmt.Sprintf("instant:%d", i))
			if v != "" {
				mu.Lock()
				if bad < 4 {
					bad++
					kit.Violation("C11", v, map[string]any{"part": "expiry-instant", "spec": spec})
					t.Errorf("C11 violated: %s", v)
				}
				mu.Unlock()
			}
		}(i, spec)
	}
	wg.Wait()
	ev.Exhaustive(fmt.Sprintf("%d tokens presented at their expiry instant: standalone verification and a full TOKEN handshake each", len(specs)))
}

// TestC11VerifyMutations: every single-character mutation (3 substitutes) of two valid tokens.
func TestC11VerifyMutations(t *testing.T) {
	bad := 0
	for _, spec := range []TokSpec{{"named", "ok", "future", "recent"}, {"pool-nokid", "ok", "absent", "absent"}} {
		tok := build(spec).full
		if v := checkVerify(tok); v != "" {
			kit.Violation("C11", v, spec)
			t.Fatalf("C11 violated: %s", v)
		}
		for i := 0; i < len(tok); i++ {
			for _, c := range []byte{'A', 'z', '_', '.'} {
				if tok[i] == c {
					continue
				}
				m := tok[:i] + string(c) + tok[i+1:]
				v := checkVerify(m)
				ev.Case("verify:single-char", m)
				if v != "" && bad < 5 {
					bad++
					kit.Violation("C11", v, map[string]any{"part": "verify", "token": m})
					t.Errorf("C11 violated: %s", v)
				}
			}
		}
	}
	ev.Exhaustive("every single-character substitution (4 substitutes) of two valid tokens through VerifyIDToken")
}

func FuzzC11VerifyIDToken(f *testing.F) {
	f.Add(build(TokSpec{"named", "ok", "future", "recent"}).full)
	f.Add(build(TokSpec{"pool-nokid", "ok", "absent", "absent"}).full)
	f.Add("a.b.c")
	f.Fuzz(func(t *testing.T, tok string) {
		if len(tok) > 4096 {
			return
		}
		if v := checkVerify(tok); v != "" {
			t.Fatalf("C11 violated: %s", v)
		}
	})
}

func TestC11Replay(t *testing.T) {
	var raw map[string]json.RawMessage
	ok, err := kit.ReplayCase(&raw)
	if !ok {
		t.Skip("no VERIF_REPLAY")
	}
	if err != nil {
		t.Fatal(err)
	}
	var part string
	_ = json.Unmarshal(raw["part"], &part)
	var mode int
	_ = json.Unmarshal(raw["age_mode"], &mode)
	setAge(mode)
	var v string
	switch part {
	case "client":
		var c ClientCase
		_ = json.Unmarshal(raw["case"], &c)
		v = runClientCase(c)
	case "server":
		var c ServerCase
		_ = json.Unmarshal(raw["case"], &c)
		v = runServerCase(c)
	case "relay":
		var d Dev
		_ = json.Unmarshal(raw["case"], &d)
		v, _ = runDev(d)
	case "recorded":
		TestC11RecordedIdentity(t) // deterministic and short: the whole sweep
		return
	case "verify":
		var tok string
		_ = json.Unmarshal(raw["token"], &tok)
		v = checkVerify(tok)
	}
	if v != "" {
		t.Fatalf("C11 violated: %s", v)
	}
}

// ---------------------------------------------------------------------------
// (5) what the server RECORDS: the token sub-protocol alone, through the exported entry point
// ---------------------------------------------------------------------------

// akep2Client plays the three AKEP2 messages on s. With sig == nil it does not know the signature and sends a
// random proof. It returns after step 3.
func akep2Client(ctx context.Context, s *stream.Stream, claimID, tokenText string, sig []byte) {
	ra := kit.Pattern(256, 99)
	tm := message.NewMessageForStream(s)
	_ = tm.PutInt(ctx, 0)
	_ = tm.PutInt(ctx, len(claimID))
	_ = tm.PutString(ctx, claimID)
	_ = tm.PutString(ctx, tokenText)
	_ = tm.PutInt(ctx, len(ra))
	_ = tm.PutBytes(ctx, ra)
	if tm.FinishMessage(ctx) != nil {
		return
	}
	sm := message.NewMessageFromStream(s)
	st2, err := sm.GetInt(ctx)
	if err != nil {
		return
	}
	_, _ = sm.GetInt(ctx)
	a2, _ := sm.GetString(ctx)
	_, _ = sm.GetInt(ctx)
	b2, _ := sm.GetString(ctx)
	n, _ := sm.GetInt(ctx)
	_, _ = sm.GetBytes(ctx, n)
	n, _ = sm.GetInt(ctx)
	rb, _ := sm.GetBytes(ctx, n)
	n, _ = sm.GetInt(ctx)
	_, _ = sm.GetBytes(ctx, n)
	_ = b2
	proof := kit.Pattern(20, 31337)
	if sig != nil {
		proof = kit.RefAKEP2Keys(sig, tokenText).ClientProof(a2, rb)
	}
	if st2 != 0 {
		a2, rb, proof = "", nil, nil
	}
	cm := message.NewMessageForStream(s)
	_ = cm.PutInt(ctx, 0)
	_ = cm.PutInt(ctx, len(a2))
	_ = cm.PutString(ctx, a2)
	_ = cm.PutInt(ctx, len(rb))
	_ = cm.PutBytes(ctx, rb)
	_ = cm.PutInt(ctx, len(proof))
	_ = cm.PutBytes(ctx, proof)
	_ = cm.FinishMessage(ctx)
}

// TestC11RecordedIdentity: whenever the token exchange fails on the server nothing of the token may have been
// recorded as the connection's identity (a later method would inherit it); when it succeeds the identity is
// the token's subject, whatever id the client claimed.
func TestC11RecordedIdentity(t *testing.T) {
	bad := 0
	for _, k := range keyKinds {
		for _, sub := range subKinds {
			for _, knows := range []bool{true, false} {
				for _, claim := range []string{"sub", "other"} {
					spec := TokSpec{k, sub, "future", "recent"}
					bt := build(spec)
					claimID := bt.sub
					if claim == "other" || claimID == "" {
						claimID = "root@verif.test"
					}
					pa, pb := kit.NextPorts()
					cc, sc := kit.NewBufPipe(pa, pb)
					ctx, cancel := context.WithTimeout(context.Background(), 3*time.Second)
					var sig []byte
					if knows {
						sig = bt.sig
					}
					go func() { akep2Client(ctx, stream.NewStream(cc), claimID, bt.text, sig); _ = cc.Close() }()
					scfg := serverCfg()
					neg := &security.SecurityNegotiation{IsClient: false, ServerConfig: scfg}
					done := make(chan error, 1)
					go func() { done <- security.NewAuthenticator(scfg, stream.NewStream(sc)).PerformTokenAuthenticationDemo(security.AuthToken, neg) }()
					var err error
					select {
					case err = <-done:
					case <-ctx.Done():
						_ = sc.Close()
						err = <-done
					}
					cancel()
					_ = sc.Close()
					v := ""
					mustFail := bt.mustFail || !knows
					switch {
					case err != nil && neg.User != "":
						v = fmt.Sprintf("the token exchange failed (%v) but the server recorded the identity %q", err, neg.User)
					case err == nil && mustFail && !bt.either:
						v = fmt.Sprintf("the token exchange succeeded for a client that must be refused (knows signature: %v, token %+v)", knows, spec)
					case err == nil && bt.sub != "" && neg.User != strings.Split(bt.sub, "@")[0]:
						v = fmt.Sprintf("recorded identity %q is not the token's subject %q (claimed id %q)", neg.User, bt.sub, claimID)
					}
					if v == "" && err != nil && !mustFail && !bt.either {
						v = fmt.Sprintf("the token exchange failed for a client holding a valid token and its signature: %v", err)
					}
					js, _ := json.Marshal(map[string]any{"tok": spec, "knows": knows, "claim": claim})
					ev.Case("recorded-identity", "rec"+string(js))
					if v != "" && bad < 4 {
						bad++
						kit.Violation("C11", v, map[string]any{"part": "recorded", "tok": spec, "knows": knows, "claim": claim})
						t.Errorf("C11 violated: %s", v)
					}
				}
			}
		}
	}
	ev.Exhaustive("the token sub-protocol alone on the server: 9 key kinds x 4 subject kinds x {knows the signature, does not} x {claims the subject, claims root}")
}
