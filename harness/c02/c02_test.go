// Package c02 decides property C02: an AES-GCM protected stream hands the
// application only an authentic, in-order prefix of what was sent.
package c02

import (
	"io"
	"strings"
	"bytes"
	"encoding/json"
	"fmt"
	"testing"

	"github.com/bbockelm/cedar/message"
	"github.com/bbockelm/cedar/stream"
	"pgregory.net/rapid"

	"verifharness/kit"
)

func TestMain(m *testing.M) { kit.Main(m) }

var ev = kit.Ev("C02")

func init() {
	ev.Rule("a transcript = cleartext prefix + key + 2-6 messages of 1-4 protected frames (0-300 bytes each) produced by the real sender; " +
		"faults = every single bit flip, frame drop/duplicate/swap/replay/cut, forged frames (len 0, 1-15, 16, 17-64; end flag 0/1) at every position, " +
		"truncation at every byte, plus generated 2-4 fault combinations; oracle: a fresh real receiver holding the key delivers exactly sent[0:n] " +
		"with n <= index of the first message containing the first altered byte, then an error; in a third of the transcripts the receiver " +
		"(which has then sent 1-3 protected messages itself) exports its crypto state after k delivered messages and continues as the stream rebuilt from the blob; " +
		"non-trivial = the edit changes the byte stream and the transcript has a multi-frame message; distinct by (transcript, fault list)")
	ev.Assume("the reference opener (kit.RefDir) independently confirms that the unedited transcript is the sender's plaintext")
}

// Transcript description (fully determines the sender's actions).
type TMsg struct {
	Frames []int `json:"frames"` // payload length of each frame
}
type Transcript struct {
	Prefix int    `json:"prefix"` // bit0: A->B cleartext message, bit1: B->A cleartext message
	Dir    int    `json:"dir"`    // 0: victim direction A->B, 1: B->A (the other direction also talks first)
	Typed  bool   `json:"typed"`  // send through message.Message instead of stream calls
	Msgs   []TMsg `json:"msgs"`
	Salt   uint32 `json:"salt"`
	// Secret: before the attacked messages the sender hands over a secret with PutSecret and the
	// receiver takes it with GetSecret (both on the already-encrypting stream). Protection of everything
	// that follows must be unaffected.
	Secret bool `json:"secret,omitempty"`
	// Handoff k > 0: the receiver has itself sent Acks (1-3) protected messages, and once it has delivered k
	// messages it exports its crypto state and carries on as a stream rebuilt from the blob on the same
	// connection (the documented process hand-off). The rebuilt stream is still the protected stream: the
	// same prefix rule holds, replays of frames delivered before the hand-off included.
	// Buffered: the sender uses StartMessage / WriteMessage(chunk)... / EndMessage; "frames" are then the chunk
	// sizes handed to WriteMessage (the stream cuts the frames itself) and may include chunks above the 4 KiB
	// flush threshold.
	Buffered bool `json:"buffered,omitempty"`
	Handoff int `json:"handoff,omitempty"`
	Acks    int `json:"acks,omitempty"`
}

const theSecret = "s3cr3t-claim-4711"

type Fault struct {
	Kind string `json:"kind"`
	A    int    `json:"a"`
	B    int    `json:"b"`
	C    int    `json:"c"`
}

type built struct {
	tr      Transcript
	frames  [][]byte // wire frames of the victim direction
	frameMsg []int   // message index of each wire frame
	sent    [][]byte // application messages
	key     []byte
	orig    []byte
	preAB   [][][]byte
	preBA   [][][]byte
	digFwd, digBack []byte
	secretFrame     []byte // wire bytes of the PutSecret frame preceding the attacked messages (nil: none)
}

func prefixFrames(tr Transcript) (ab, ba [][][]byte) {
	if tr.Prefix&1 != 0 {
		ab = append(ab, [][]byte{kit.Pattern(21, tr.Salt+1)})
	}
	if tr.Prefix&2 != 0 {
		ba = append(ba, [][]byte{kit.Pattern(3, tr.Salt+2), kit.Pattern(9, tr.Salt+3)})
	}
	return
}

func build(tr Transcript) (*built, error) {
	p := kit.NewPair()
	ab, ba := prefixFrames(tr)
	for _, m := range ab {
		if err := p.ClearExchange(0, m); err != nil {
			return nil, err
		}
	}
	for _, m := range ba {
		if err := p.ClearExchange(1, m); err != nil {
			return nil, err
		}
	}
	key := kit.Pattern(32, tr.Salt+55)
	if err := p.SetKey(key); err != nil {
		return nil, err
	}
	S, sc := p.A, p.CA
	if tr.Dir == 1 {
		S, sc = p.B, p.CB
		// let the other direction talk first so both counters are in use
		if err := p.A.SendMessage(kit.Bg, []byte("hello")); err != nil {
			return nil, err
		}
		if _, err := p.B.ReceiveCompleteMessage(kit.Bg); err != nil {
			return nil, err
		}
	}
	b := &built{tr: tr, key: key, preAB: ab, preBA: ba}
	if tr.Secret {
		n0 := len(sc.WriteLog)
		if err := S.PutSecret(kit.Bg, theSecret); err != nil {
			return nil, err
		}
		if len(sc.WriteLog) != n0+1 {
			return nil, fmt.Errorf("PutSecret wrote %d frames", len(sc.WriteLog)-n0)
		}
		b.secretFrame = sc.WriteLog[n0]
	}
	w0 := len(sc.WriteLog)
	for i, m := range tr.Msgs {
		var whole []byte
		n0 := len(sc.WriteLog)
		if tr.Buffered {
			S.StartMessage()
			for j, n := range m.Frames {
				pl := kit.Pattern(n, tr.Salt+uint32(i*16+j))
				whole = append(whole, pl...)
				if err := S.WriteMessage(kit.Bg, pl); err != nil {
					return nil, err
				}
			}
			if err := S.EndMessage(kit.Bg); err != nil {
				return nil, err
			}
		} else if tr.Typed {
			msg := message.NewMessageForStream(S)
			for j, n := range m.Frames {
				pl := kit.Pattern(n, tr.Salt+uint32(i*16+j))
				whole = append(whole, pl...)
				if err := msg.PutBytes(kit.Bg, pl); err != nil {
					return nil, err
				}
				if j < len(m.Frames)-1 {
					if err := msg.FlushFrame(kit.Bg, false); err != nil {
						return nil, err
					}
				}
			}
			if err := msg.FinishMessage(kit.Bg); err != nil {
				return nil, err
			}
		} else {
			for j, n := range m.Frames {
				pl := kit.Pattern(n, tr.Salt+uint32(i*16+j))
				whole = append(whole, pl...)
				var err error
				if j < len(m.Frames)-1 {
					err = S.SendPartialMessage(kit.Bg, pl)
				} else {
					err = S.SendMessage(kit.Bg, pl)
				}
				if err != nil {
					return nil, err
				}
			}
		}
		for range sc.WriteLog[n0:] {
			b.frameMsg = append(b.frameMsg, i)
		}
		b.sent = append(b.sent, whole)
	}
	for _, w := range sc.WriteLog[w0:] {
		b.frames = append(b.frames, w)
		b.orig = append(b.orig, w...)
	}
	// Independent confirmation that the transcript is what the model says: open
	// it with the reference codec.
	fwd, back := &p.ClearAB, &p.ClearBA
	if tr.Dir == 1 {
		fwd, back = back, fwd
	}
	b.digFwd, b.digBack = fwd.Sum(), back.Sum()
	rd, err := kit.NewRefDir(key)
	if err != nil {
		return nil, err
	}
	if b.secretFrame != nil {
		fr, _ := kit.ParseFrames(b.secretFrame)
		if len(fr) != 1 {
			return nil, fmt.Errorf("PutSecret wrote something that is not one frame")
		}
		pt, err := rd.Open(fr[0], b.digFwd, b.digBack)
		if err != nil || string(pt) != theSecret+"\x00" {
			return nil, fmt.Errorf("reference opener: the secret frame does not open to the secret (%v)", err)
		}
	}
	var cur []byte
	mi := 0
	for _, raw := range b.frames {
		fr, _ := kit.ParseFrames(raw)
		if len(fr) != 1 {
			return nil, fmt.Errorf("sender wrote something that is not exactly one frame per write")
		}
		pt, err := rd.Open(fr[0], b.digFwd, b.digBack)
		if err != nil {
			return nil, fmt.Errorf("reference opener rejects the sender's frame: %v", err)
		}
		cur = append(cur, pt...)
		if fr[0].End != 0 {
			if !bytes.Equal(cur, b.sent[mi]) {
				return nil, fmt.Errorf("reference opener: message %d differs from what was sent", mi)
			}
			mi++
			cur = nil
		}
	}
	if mi != len(b.sent) {
		return nil, fmt.Errorf("reference opener found %d messages, sent %d", mi, len(b.sent))
	}
	return b, nil
}

// freshReceiver builds a new real stream in the receiver's pre-key state.
func (b *built) freshReceiver() (*stream.Stream, *kit.MemConn) {
	c := kit.NewMemConn()
	r := stream.NewStream(c)
	in, out := b.preAB, b.preBA // receiver is B
	if b.tr.Dir == 1 {
		in, out = b.preBA, b.preAB // receiver is A
	}
	// order of the cleartext exchange: all A->B first, then B->A
	doIn := func() {
		for _, m := range in {
			for j, f := range m {
				end := byte(1)
				if j < len(m)-1 {
					end = 0
				}
				c.Feed(kit.BuildFrame(end, f))
			}
			_, _ = r.ReceiveCompleteMessage(kit.Bg)
		}
	}
	doOut := func() {
		for _, m := range out {
			for j, f := range m {
				if j < len(m)-1 {
					_ = r.SendPartialMessage(kit.Bg, f)
				} else {
					_ = r.SendMessage(kit.Bg, f)
				}
			}
		}
	}
	if b.tr.Dir == 0 {
		doIn()
		doOut()
	} else {
		doOut()
		doIn()
	}
	_ = r.SetSymmetricKey(b.key)
	if b.secretFrame != nil {
		c.Feed(b.secretFrame)
		if got, err := r.GetSecret(kit.Bg); err != nil || got != theSecret {
			panic(fmt.Sprintf("C02 harness: fresh receiver could not take the secret: %q %v", got, err))
		}
	}
	if b.tr.Handoff > 0 {
		for i := 0; i < b.tr.Acks; i++ {
			if err := r.SendMessage(kit.Bg, []byte("ack")); err != nil {
				panic(fmt.Sprintf("C02 harness: fresh receiver could not send: %v", err))
			}
		}
	}
	return r, c
}

// applyFaults edits the frame list.
func (b *built) applyFaults(fs []Fault) []byte {
	frames := make([][]byte, len(b.frames))
	copy(frames, b.frames)
	var tail []byte
	cut := -1
	for _, f := range fs {
		n := len(frames)
		if n == 0 {
			break
		}
		switch f.Kind {
		case "flip": // A = byte offset in whole stream, B = bit
			off := f.A
			for i := range frames {
				if off < len(frames[i]) {
					nf := append([]byte(nil), frames[i]...)
					nf[off] ^= 1 << uint(f.B&7)
					frames[i] = nf
					break
				}
				off -= len(frames[i])
			}
		case "drop":
			i := f.A % n
			frames = append(append([][]byte(nil), frames[:i]...), frames[i+1:]...)
		case "dup":
			i := f.A % n
			frames = append(append(append([][]byte(nil), frames[:i+1]...), frames[i]), frames[i+1:]...)
		case "swap":
			if n >= 2 {
				i := f.A % (n - 1)
				nf := append([][]byte(nil), frames...)
				nf[i], nf[i+1] = nf[i+1], nf[i]
				frames = nf
			}
		case "replay": // copy of frame A inserted before position B (B > A+1)
			i := f.A % n
			pos := i + 2 + f.B%(n-i)
			if pos > n {
				pos = n
			}
			frames = append(append(append([][]byte(nil), frames[:pos]...), frames[i]), frames[pos:]...)
		case "cutframe": // frame A keeps only its first B bytes
			i := f.A % n
			if len(frames[i]) == 0 {
				continue
			}
			l := f.B % len(frames[i])
			nf := append([][]byte(nil), frames...)
			nf[i] = frames[i][:l]
			frames = nf
		case "forge": // forged frame before position A: body length B, end flag C, content pattern
			pos := f.A % (n + 1)
			body := kit.Pattern(f.B, uint32(f.A*31+f.B))
			fr := kit.BuildFrame(byte(f.C), body)
			frames = append(append(append([][]byte(nil), frames[:pos]...), fr), frames[pos:]...)
		case "trunc": // stream cut after A bytes
			cut = f.A
		}
	}
	var out []byte
	for _, f := range frames {
		out = append(out, f...)
	}
	out = append(out, tail...)
	if cut >= 0 && cut < len(out) {
		out = out[:cut]
	}
	return out
}

// firstAffected returns the index of the first message containing the first
// byte at which edited deviates from the original stream (len(sent) if edited
// only has extra bytes after the complete original) and whether anything changed.
func (b *built) firstAffected(edited []byte) (int, bool) {
	if bytes.Equal(edited, b.orig) {
		return len(b.sent), false
	}
	n := len(edited)
	if len(b.orig) < n {
		n = len(b.orig)
	}
	off := n
	for i := 0; i < n; i++ {
		if edited[i] != b.orig[i] {
			off = i
			break
		}
	}
	if off >= len(b.orig) {
		return len(b.sent), true
	}
	for i, f := range b.frames {
		if off < len(f) {
			return b.frameMsg[i], true
		}
		off -= len(f)
	}
	return len(b.sent), true
}

var recvNames = []string{"ReceiveCompleteMessage", "Msg.GetRemainingBytes", "ReceiveFrameWithEnd", "Msg.GetBytes x3 (pieces held)"}

const nAPI = 4

// deliver feeds edited to a fresh receiver and pulls messages until an error.
func (b *built) deliver(edited []byte, api int) (msgs [][]byte, err error) {
	r, c := b.freshReceiver()
	c.Feed(edited)
	for len(msgs) <= len(b.sent)+8 {
		var m []byte
		switch api {
		case 0:
			m, err = r.ReceiveCompleteMessage(kit.Bg)
		case 1:
			m, err = message.NewMessageFromStream(r).GetRemainingBytes(kit.Bg)
		case 3:
			// the typed reader takes the message in three pieces and keeps them as handed out until the message is
			// over (it knows the lengths an honest sender would produce; whatever an edit makes of them is an error)
			tm := message.NewMessageFromStream(r)
			if idx := len(msgs); idx >= len(b.sent) {
				m, err = tm.GetRemainingBytes(kit.Bg)
			} else {
				want := len(b.sent[idx])
				var pieces [][]byte
				for got := 0; got < want && err == nil; {
					k := want/3 + 1
					if k > want-got {
						k = want - got
					}
					var p []byte
					if p, err = tm.GetBytes(kit.Bg, k); err == nil {
						pieces = append(pieces, p)
						got += k
					}
				}
				if err == nil {
					if _, e := tm.GetChar(kit.Bg); e != io.EOF {
						err = fmt.Errorf("message does not end where the sender ended it: %v", e)
					}
				}
				m = bytes.Join(pieces, nil)
			}
		case 2:
			for {
				var d []byte
				var end byte
				d, end, err = r.ReceiveFrameWithEnd(kit.Bg)
				if err != nil {
					break
				}
				m = append(m, d...)
				if end != 0 {
					break
				}
			}
		}
		if err != nil {
			return msgs, err
		}
		if m == nil {
			m = []byte{}
		}
		msgs = append(msgs, m)
		if b.tr.Handoff > 0 && len(msgs) == b.tr.Handoff {
			blob, xerr := r.ExportCryptoState()
			if xerr != nil {
				return msgs, fmt.Errorf("hand-off: export at a message boundary refused: %w", xerr)
			}
			r2, ierr := stream.NewStreamWithCryptoState(c, blob)
			if ierr != nil {
				return msgs, fmt.Errorf("hand-off: import of the exported blob refused: %w", ierr)
			}
			r = r2
		}
	}
	return msgs, fmt.Errorf("receiver kept delivering messages")
}

func (b *built) check(fs []Fault, api int) (viol string, changed bool, a int) {
	edited := b.applyFaults(fs)
	a, changed = b.firstAffected(edited)
	got, err := b.deliver(edited, api)
	if err == nil {
		return "receiver never reported an error", changed, a
	}
	if !changed {
		if len(got) != len(b.sent) {
			return fmt.Sprintf("unedited transcript: delivered %d of %d messages (%v)", len(got), len(b.sent), err), changed, a
		}
	}
	if len(got) > a {
		return fmt.Sprintf("%d messages delivered but message %d is the first affected one (receiver %s)", len(got), a, recvNames[api]), changed, a
	}
	for i, m := range got {
		if !bytes.Equal(m, b.sent[i]) {
			return fmt.Sprintf("delivered message %d differs from what was sent: %s", i, kit.FirstDiff(b.sent[i], m)), changed, a
		}
	}
	return "", changed, a
}

type Case struct {
	T      Transcript `json:"transcript"`
	Faults []Fault    `json:"faults"`
	API    int        `json:"api"`
}

func runCase(c Case) (string, error) {
	b, err := build(c.T)
	if err != nil {
		return "", err
	}
	v, _, _ := b.check(c.Faults, c.API)
	return v, nil
}

func multiFrame(t Transcript) bool {
	for _, m := range t.Msgs {
		if len(m.Frames) > 1 {
			return true
		}
	}
	return false
}

func genTranscript(t *rapid.T) Transcript {
	tr := Transcript{Prefix: rapid.IntRange(0, 3).Draw(t, "prefix"), Dir: rapid.IntRange(0, 1).Draw(t, "dir"),
		Typed: rapid.Bool().Draw(t, "typed"), Salt: rapid.Uint32().Draw(t, "salt"), Secret: rapid.IntRange(0, 3).Draw(t, "secret") == 0}
	n := rapid.IntRange(2, 6).Draw(t, "nmsgs")
	for i := 0; i < n; i++ {
		k := rapid.IntRange(1, 4).Draw(t, "nframes")
		var m TMsg
		for j := 0; j < k; j++ {
			l := rapid.SampledFrom([]int{0, 1, 2, 15, 16, 17, 40, 100, 300}).Draw(t, "flen")
			if tr.Typed && l == 0 && j < k-1 {
				l = 1 // an explicit FlushFrame(false) of an empty buffer still sends a frame; keep both shapes
			}
			m.Frames = append(m.Frames, l)
		}
		tr.Msgs = append(tr.Msgs, m)
	}
	if !tr.Typed && rapid.IntRange(0, 3).Draw(t, "buffered") == 0 {
		tr.Buffered = true
		for i := range tr.Msgs {
			for j := range tr.Msgs[i].Frames {
				if rapid.IntRange(0, 3).Draw(t, "bigchunk") == 0 {
					tr.Msgs[i].Frames[j] = rapid.SampledFrom([]int{4095, 4096, 4097, 5000, 9000}).Draw(t, "chunk")
				}
			}
		}
	}
	if rapid.IntRange(0, 2).Draw(t, "handoff?") == 0 {
		tr.Handoff, tr.Acks = rapid.IntRange(1, n-1).Draw(t, "handoff"), rapid.IntRange(1, 3).Draw(t, "acks")
	}
	return tr
}

func genFault(t *rapid.T, nframes, nbytes int) Fault {
	k := rapid.SampledFrom([]string{"flip", "drop", "dup", "swap", "replay", "cutframe", "forge", "forge", "trunc"}).Draw(t, "kind")
	f := Fault{Kind: k}
	switch k {
	case "flip":
		f.A, f.B = rapid.IntRange(0, nbytes-1).Draw(t, "off"), rapid.IntRange(0, 7).Draw(t, "bit")
	case "forge":
		f.A = rapid.IntRange(0, nframes).Draw(t, "pos")
		f.B = rapid.SampledFrom([]int{0, 0, 1, 15, 16, 17, 32, 33, 64}).Draw(t, "flen")
		f.C = rapid.SampledFrom([]int{0, 1, 1, 2, 10}).Draw(t, "end")
	case "trunc":
		f.A = rapid.IntRange(0, nbytes-1).Draw(t, "cut")
	default:
		f.A, f.B = rapid.IntRange(0, nframes-1).Draw(t, "i"), rapid.IntRange(0, 400).Draw(t, "j")
	}
	return f
}

func record(c Case, changed bool) {
	class := "unchanged"
	if changed {
		class = "fault:" + c.Faults[0].Kind
		if len(c.Faults) > 1 {
			class = "multi-fault"
		}
	}
	if c.T.Handoff > 0 {
		class = "handoff/" + class
	}
	k := ""
	if changed && multiFrame(c.T) {
		b, _ := json.Marshal(c)
		k = string(b)
	}
	ev.Case(class, k)
}

// TestC02Multi: random transcripts with 1-4 combined faults.
func TestC02Multi(t *testing.T) {
	rapid.Check(t, func(t *rapid.T) {
		tr := genTranscript(t)
		b, err := build(tr)
		if err != nil && strings.Contains(err.Error(), "reference opener") {
			js, _ := json.Marshal(tr)
			t.Fatalf("C02 violated: with nobody on the path, what the sender put on the wire is not what its application sent: %v\ncase: %s", err, js)
		}
		if err != nil {
			t.Fatalf("C02 harness: cannot build transcript: %v", err)
		}
		nf := rapid.IntRange(1, 4).Draw(t, "nfaults")
		var fs []Fault
		for i := 0; i < nf; i++ {
			fs = append(fs, genFault(t, len(b.frames), len(b.orig)))
		}
		api := rapid.IntRange(0, nAPI-1).Draw(t, "api")
		c := Case{T: tr, Faults: fs, API: api}
		v, changed, _ := b.check(fs, api)
		record(c, changed)
		ev.Sample("multi", c)
		if v != "" {
			js, _ := json.Marshal(c)
			t.Fatalf("C02 violated: %s\ncase: %s", v, js)
		}
	})
}

// TestC02Exhaustive enumerates every single fault over a few transcripts.
func TestC02Exhaustive(t *testing.T) {
	seed := kit.Seed()
	nT := kit.Scale(5, 32)
	bad := 0
	report := func(c Case, v string) {
		if bad < 6 {
			kit.Violation("C02", v, c)
			t.Errorf("C02 violated: %s", v)
		}
		bad++
	}
	for ti := 0; ti < nT; ti++ {
		// deterministic transcript shapes derived from the seed
		x := uint32(seed)*2654435761 + uint32(ti)*40503
		tr := Transcript{Prefix: int(x>>3) % 4, Dir: ti % 2, Typed: ti%3 == 2, Salt: x, Secret: ti%4 == 3}
		nm := 2 + int(x>>7)%3
		if ti%5 == 1 || ti%5 == 4 {
			tr.Handoff, tr.Acks = 1+int(x>>11)%(nm-1), 1+int(x>>13)%3
		}
		if ti%5 == 3 && !tr.Typed {
			tr.Buffered = true
		}
		sizes := []int{0, 1, 15, 16, 17, 40, 100}
		for i := 0; i < nm; i++ {
			var m TMsg
			k := 1 + int(x>>(uint(i)*2+9))%3
			if i == 1 {
				k = 3 // always one multi-frame message
			}
			for j := 0; j < k; j++ {
				l := sizes[int(x>>(uint(i*4+j)+1))%len(sizes)]
				if tr.Typed && l == 0 {
					l = 2
				}
				m.Frames = append(m.Frames, l)
			}
			tr.Msgs = append(tr.Msgs, m)
		}
		if tr.Buffered {
			tr.Msgs[1].Frames = []int{7, 5000, 3} // a small chunk still buffered when a chunk above the flush threshold arrives
		}
		b, err := build(tr)
		if err != nil {
			kit.Violation("C02", "cannot build/verify transcript with the reference codec: "+err.Error(), tr)
			t.Fatalf("transcript: %v", err)
		}
		if ti == 0 {
			ev.Sample("exhaustive-transcript", tr)
		}
		run := func(f Fault) {
			for api := 0; api < nAPI; api++ {
				c := Case{T: tr, Faults: []Fault{f}, API: api}
				v, changed, _ := b.check(c.Faults, api)
				record(c, changed)
				if v != "" {
					report(c, v)
				}
			}
		}
		// control: unedited
		run(Fault{Kind: "none"})
		for off := 0; off < len(b.orig); off++ {
			for bit := 0; bit < 8; bit++ {
				run(Fault{Kind: "flip", A: off, B: bit})
			}
			run(Fault{Kind: "trunc", A: off})
		}
		nf := len(b.frames)
		for i := 0; i < nf; i++ {
			run(Fault{Kind: "drop", A: i})
			run(Fault{Kind: "dup", A: i})
			run(Fault{Kind: "swap", A: i})
			for p := 0; p < nf-i; p++ {
				run(Fault{Kind: "replay", A: i, B: p})
			}
			for l := 0; l < len(b.frames[i]); l++ {
				run(Fault{Kind: "cutframe", A: i, B: l})
			}
		}
		for pos := 0; pos <= nf; pos++ {
			for _, l := range []int{0, 1, 7, 15, 16, 17, 31, 32, 33, 64} {
				for _, end := range []int{0, 1} {
					run(Fault{Kind: "forge", A: pos, B: l, C: end})
				}
			}
		}
	}
	ev.Exhaustive(fmt.Sprintf("all single faults (every bit, every truncation, drop/dup/swap/replay/cut of every frame, forged frames of 10 lengths x 2 end flags at every position) over %d transcripts x 4 receivers", nT))
}

// TestC02BigFrames: transcripts whose frames sit at the 1 MiB frame limit (where the sender has to split a
// frame to fit the protection overhead), final and non-final, with the unedited control and a sample of faults.
func TestC02BigFrames(t *testing.T) {
	const MiB = 1 << 20
	bad := 0
	for ti, frames := range [][]int{{MiB - 20, 9}, {MiB, 5}, {7, MiB - 16}, {MiB - 33, MiB - 15, 3}} {
		for _, typed := range []bool{false, true} {
			tr := Transcript{Prefix: ti % 4, Dir: ti % 2, Typed: typed, Salt: uint32(900 + ti), Msgs: []TMsg{{Frames: []int{4}}, {Frames: frames}, {Frames: []int{6}}}}
			b, err := build(tr)
			if err != nil {
				kit.Violation("C02", "cannot build/verify transcript with the reference codec: "+err.Error(), tr)
				t.Errorf("C02 violated: transcript with frames at the frame limit: %v", err)
				continue
			}
			fs := []Fault{{Kind: "none"}, {Kind: "flip", A: 0, B: 0}, {Kind: "flip", A: len(b.orig) / 2, B: 3}, {Kind: "flip", A: len(b.orig) - 1, B: 7},
				{Kind: "trunc", A: len(b.orig) - 1}, {Kind: "trunc", A: len(b.orig) / 2}}
			for i := range b.frames {
				fs = append(fs, Fault{Kind: "drop", A: i}, Fault{Kind: "dup", A: i}, Fault{Kind: "swap", A: i}, Fault{Kind: "flip", A: offsetOf(b, i), B: 0})
			}
			for _, f := range fs {
				for api := 0; api < nAPI; api++ {
					c := Case{T: tr, Faults: []Fault{f}, API: api}
					v, changed, _ := b.check(c.Faults, api)
					record(c, changed)
					if v != "" && bad < 4 {
						bad++
						kit.Violation("C02", v, c)
						t.Errorf("C02 violated: %s", v)
					}
				}
			}
		}
	}
	ev.Exhaustive("4 transcripts with frames at the 1 MiB limit x {stream, typed} x {unedited, end-flag and sample bit flips, truncations, drop/dup/swap of every frame} x 4 receivers")
}

// offsetOf returns the byte offset of frame i's header in the original stream.
func offsetOf(b *built, i int) int {
	off := 0
	for _, f := range b.frames[:i] {
		off += len(f)
	}
	return off
}

func TestC02Replay(t *testing.T) {
	var c Case
	ok, err := kit.ReplayCase(&c)
	if !ok {
		// committed regression cases
		for _, c := range regress {
			v, err := runCase(c)
			if err != nil {
				t.Fatal(err)
			}
			ev.Case("regress", "")
			if v != "" {
				kit.Violation("C02", v, c)
				t.Errorf("C02 violated: %s", v)
			}
		}
		return
	}
	if err != nil {
		t.Fatal(err)
	}
	v, err := runCase(c)
	if err != nil {
		t.Fatal(err)
	}
	if v != "" {
		t.Fatalf("C02 violated: %s", v)
	}
}

var regress = []Case{
	{T: Transcript{Prefix: 1, Msgs: []TMsg{{Frames: []int{5, 6}}, {Frames: []int{7}}}, Salt: 3}, Faults: []Fault{{Kind: "forge", A: 1, B: 0, C: 1}}, API: 0},
	{T: Transcript{Prefix: 2, Dir: 1, Msgs: []TMsg{{Frames: []int{5}}, {Frames: []int{7, 0, 3}}}, Salt: 4}, Faults: []Fault{{Kind: "forge", A: 0, B: 0, C: 0}}, API: 2},
}
