// Package c07 decides property C07: a client reuses a cached session only for
// the same server, command and tag, and drops it when resumption fails.
package c07

import (
	"os"
	"github.com/bbockelm/cedar/ccb"
	"bytes"
	"context"
	"encoding/binary"
	"encoding/json"
	"fmt"
	"io"
	"net"
	"sort"
	"strings"
	"sync"
	"testing"
	"time"

	"github.com/bbockelm/cedar/client"
	"github.com/bbockelm/cedar/security"
	"github.com/bbockelm/cedar/stream"
	"pgregory.net/rapid"

	"verifharness/kit"
)

func TestMain(m *testing.M) { kit.Main(m) }

var ev = kit.Ev("C07")

func init() {
	ev.Rule("a history of client handshakes over (tag in {none,A,B}, server in 3 real servers on loopback TCP, command in 4) through Authenticator.ClientHandshake and client.ConnectAndAuthenticateWithConfig, " +
		"sharing one client SessionCache (and, in half the histories, one SecurityConfig object whose tag and command are set before each use), interleaved with server restarts (sessions forgotten), broken next resumption (close / garbage / DENIED reply), client-side expiry (hook), invalidation and sweeps; " +
		"servers advertise generated ValidCommands subsets; oracle: reference map route[(tag, address, command)] -> session built from the post-auth ads; the first message of every connection is read off the wire: " +
		"a resumption request may only name the session the map holds for exactly this triple and only while the client-side entry is live; after a failed resumption the session and every command route to it are gone " +
		"and the next handshake is a full one; non-trivial = >=2 tags or >=2 servers and a handshake that follows a cached session for a different triple; distinct by history")
}

var cmds = []int{60011, 60007, 421, 443}
var tags = []string{"", "A", "B"}

type srv struct {
	ln       net.Listener
	addr     string
	mu       sync.Mutex
	valid    []int  // ValidCommands the server advertises
	breakNxt string // "", "close", "garbage", "denied"
	sids     []string
	log      []connLog
	accepted int
}

type connLog struct {
	seq       int    // order in which the server ACCEPTED the connections (records can complete out of order)
	resumeSid string // "" = full handshake request
	fullSid   string // session created by a completed full handshake
	broke     string
}

var servers []*srv

type prefixConn struct {
	net.Conn
	pre []byte
}

func (p *prefixConn) Read(b []byte) (int, error) {
	if len(p.pre) > 0 {
		n := copy(b, p.pre)
		p.pre = p.pre[n:]
		return n, nil
	}
	return p.Conn.Read(b)
}

// parseRequest extracts UseSession/Sid from the first client message.
func parseRequest(payload []byte) (resume bool, sid string) {
	if len(payload) < 16 {
		return false, ""
	}
	rest := payload[16:] // command int + expression count
	for _, s := range bytes.Split(rest, []byte{0}) {
		str := string(s)
		if strings.HasPrefix(str, "UseSession") && strings.Contains(str, "YES") {
			resume = true
		}
		if strings.HasPrefix(str, "Sid") {
			if i := strings.Index(str, `"`); i >= 0 {
				sid = strings.Trim(str[i:], `"`)
			}
		}
	}
	return
}

func (s *srv) serve() {
	for {
		c, err := s.ln.Accept()
		if err != nil {
			return
		}
		s.mu.Lock()
		s.accepted++
		seq := s.accepted
		s.mu.Unlock()
		go s.handle(c, seq)
	}
}

func (s *srv) handle(c net.Conn, seq int) {
	defer c.Close()
	_ = c.SetDeadline(time.Now().Add(5 * time.Second))
	hdr := make([]byte, 5)
	if _, err := io.ReadFull(c, hdr); err != nil {
		return
	}
	n := int(binary.BigEndian.Uint32(hdr[1:5]))
	if n > 1<<20 {
		return
	}
	body := make([]byte, n)
	if _, err := io.ReadFull(c, body); err != nil {
		return
	}
	resume, sid := parseRequest(body)
	cl := connLog{seq: seq}
	if resume {
		cl.resumeSid = sid
	}
	s.mu.Lock()
	brk := ""
	if resume && s.breakNxt != "" {
		brk, s.breakNxt = s.breakNxt, ""
	}
	valid := append([]int(nil), s.valid...)
	s.mu.Unlock()
	cl.broke = brk
	switch brk {
	case "close":
		s.record(cl)
		return
	case "garbage":
		_, _ = c.Write([]byte{1, 0, 0, 0, 12, 'n', 'o', 't', ' ', 'a', ' ', 'c', 'l', 'a', 's', 's', 'a'})
		s.record(cl)
		return
	case "denied":
		var mb kit.MsgBuf
		mb.ClassAd([]string{`ReturnCode = "DENIED"`}, "", "")
		_, _ = c.Write(mb.Frame())
		s.record(cl)
		return
	}
	pc := &prefixConn{Conn: c, pre: append(append([]byte(nil), hdr...), body...)}
	st := stream.NewStream(pc)
	cfg := kit.BaseConfig(security.SecurityOptional, security.SecurityOptional, security.AuthClaimToBe)
	cfg.SessionCache = nil
	cfg.PostAuthPolicy = func(authUser, peerAddr string, authenticated, encrypted bool) (string, []int) {
		return "", valid
	}
	ctx, cancel := context.WithTimeout(context.Background(), 4*time.Second)
	defer cancel()
	neg, err := security.NewAuthenticator(cfg, st).ServerHandshake(ctx)
	if err == nil && !resume {
		cl.fullSid = neg.SessionId
		s.mu.Lock()
		s.sids = append(s.sids, neg.SessionId)
		s.mu.Unlock()
	}
	s.record(cl)
	if err == nil {
		// one application round so the client can tell the session works
		if m, err := st.ReceiveCompleteMessage(ctx); err == nil {
			_ = st.SendMessage(ctx, append([]byte("echo:"), m...))
		}
	}
}

func (s *srv) record(cl connLog) {
	s.mu.Lock()
	s.log = append(s.log, cl)
	s.mu.Unlock()
}

func (s *srv) takeLog() []connLog {
	s.mu.Lock()
	defer s.mu.Unlock()
	l := s.log
	s.log = nil
	sort.Slice(l, func(i, j int) bool { return l[i].seq < l[j].seq })
	return l
}

func startServers() {
	for i := 0; i < 3; i++ {
		ln, err := net.Listen("tcp", "127.0.0.1:0")
		if err != nil {
			panic(err)
		}
		s := &srv{ln: ln, addr: ln.Addr().String()}
		servers = append(servers, s)
		go s.serve()
	}
}

type Op struct {
	Sub bool `json:"sub,omitempty"` // handshake: the configuration also names a sub-command (AuthCommand), another of the four commands
	K    string `json:"k"`
	Tag  int    `json:"tag"`
	Srv  int    `json:"srv"`
	Cmd  int    `json:"cmd"`
	API  int    `json:"api"` // 0 Authenticator.ClientHandshake, 1 client.ConnectAndAuthenticateWithConfig
	V    int    `json:"v"`
}

type Case struct {
	Ops []Op `json:"ops"`
	// Shared: the application keeps ONE SecurityConfig object for all its handshakes and only sets the tag and
	// the command before each use (no PeerName: the connection's peer address identifies the server).
	Shared bool `json:"shared,omitempty"`
}

type routeKey struct {
	tag, addr string
	cmd       int
}

type model struct {
	route      map[routeKey]string
	clientLive map[string]bool
	owner      map[string]routeKey // the triple a session was established under (its tag and address)
}

type stats struct {
	tags, servers           map[int]bool
	crossTriple             bool
	resumptions, fulls, failedResumes int
}

func addrKey(s *srv, api int) string {
	if api == 1 {
		return s.addr
	}
	return "<" + s.addr + ">"
}

var mintSeq int

func runCase(c Case) (string, stats) {
	st := stats{tags: map[int]bool{}, servers: map[int]bool{}}
	security.ClearSessionCache()
	for _, s := range servers {
		s.mu.Lock()
		s.valid, s.breakNxt, s.sids, s.log = []int{cmds[0], cmds[1]}, "", nil, nil
		s.mu.Unlock()
	}
	cache := security.NewSessionCache()
	md := model{route: map[routeKey]string{}, clientLive: map[string]bool{}, owner: map[string]routeKey{}}
	allKeys := func() []routeKey {
		var ks []routeKey
		for _, tg := range tags {
			for _, s := range servers {
				for api := 0; api < 2; api++ {
					for _, cm := range cmds {
						ks = append(ks, routeKey{tg, addrKey(s, api), cm})
					}
				}
			}
		}
		return ks
	}
	noRouteTo := func(sid string) string {
		if _, ok := cache.Lookup(sid); ok {
			return fmt.Sprintf("session %s is still in the client cache", sid)
		}
		for _, k := range allKeys() {
			if e, ok := cache.LookupByCommand(k.tag, k.addr, fmt.Sprint(k.cmd)); ok && e.ID() == sid {
				return fmt.Sprintf("route (tag %q, %s, command %d) still leads to session %s", k.tag, k.addr, k.cmd, sid)
			}
		}
		return ""
	}
	drop := func(sid string) {
		md.clientLive[sid] = false
		for k, v := range md.route {
			if v == sid {
				delete(md.route, k)
			}
		}
	}
	// deadRoutes reads the cache's own dump: routes whose session is not in the cache any more
	deadRoutes := func() []string {
		dump := cache.DebugDump()
		listed := map[string]bool{}
		inMap := false
		var dead []string
		for _, ln := range strings.Split(dump, "\n") {
			switch {
			case strings.HasPrefix(ln, "command_map:"):
				inMap = true
			case !inMap && strings.HasPrefix(ln, "- id="):
				if f := strings.Fields(strings.TrimPrefix(ln, "- id=")); len(f) > 0 {
					listed[f[0]] = true
				}
			case inMap && strings.Contains(ln, " -> "):
				if sid := strings.TrimSpace(ln[strings.LastIndex(ln, " -> ")+4:]); !listed[sid] {
					dead = append(dead, strings.TrimSpace(ln))
				}
			}
		}
		return dead
	}
	var prevFullKey *routeKey
	sharedCfg := kit.BaseConfig(security.SecurityRequired, security.SecurityOptional, security.AuthClaimToBe)
	sharedCfg.SessionCache = cache
	for oi, op := range c.Ops {
		s := servers[op.Srv%len(servers)]
		fail := func(f string, a ...any) (string, stats) {
			return fmt.Sprintf("op %d (%s tag=%q srv=%d cmd=%d api=%d): ", oi, op.K, tags[op.Tag%3], op.Srv%3, cmds[op.Cmd%4], op.API) + fmt.Sprintf(f, a...), st
		}
		switch op.K {
		case "policy":
			s.mu.Lock()
			s.valid = nil
			for i, cm := range cmds {
				if op.V&(1<<uint(i)) != 0 {
					s.valid = append(s.valid, cm)
				}
			}
			s.mu.Unlock()
		case "restart":
			s.mu.Lock()
			for _, sid := range s.sids {
				security.InvalidateSession(sid)
			}
			s.sids = nil
			s.mu.Unlock()
		case "break":
			s.mu.Lock()
			s.breakNxt = []string{"close", "garbage", "denied"}[op.V%3]
			s.mu.Unlock()
		case "expire", "invalidate":
			var live []string
			for sid, l := range md.clientLive {
				if l {
					live = append(live, sid)
				}
			}
			if len(live) == 0 {
				continue
			}
			// deterministic choice
			pick := live[0]
			for _, x := range live {
				if x < pick {
					pick = x
				}
			}
			if op.K == "expire" {
				if e, ok := cache.Lookup(pick); ok {
					e.VerifSetExpiration(time.Now().Add(-time.Second))
				}
				if op.V%2 == 0 {
					cache.InvalidateExpired()
				}
				if op.V%4 == 3 {
					// noticed by a lookup by id (what a handshake naming the session explicitly, or a server's
					// resumption lookup, does): the entry goes now, a later sweep has to collect its routes
					_, _ = cache.LookupNonExpired(pick)
				}
			} else {
				cache.Invalidate(pick)
			}
			md.clientLive[pick] = false
			for _, k := range allKeys() {
				if e, ok := cache.LookupByCommand(k.tag, k.addr, fmt.Sprint(k.cmd)); ok && e.ID() == pick {
					return fail("after %s, route (tag %q, %s, %d) still leads to session %s", op.K, k.tag, k.addr, k.cmd, pick)
				}
			}
		case "sweep":
			cache.InvalidateExpired()
			// a sweep leaves no route behind whose session is gone - however the session went (swept now, dropped
			// by an earlier lookup that found it expired, invalidated)
			if d := deadRoutes(); len(d) > 0 {
				return fail("after a sweep the command map still holds %d route(s) to sessions that are no longer in the cache: %v", len(d), d)
			}
		case "inherit":
			// sessions inherited from a parent daemon through the environment, as a child started by a master gets
			// them: the parent session (declaring the commands op.V selects valid) and the family session (declaring
			// none). They are filed, untagged, under the parent's address: each command leads to the session that
			// declared it, nothing else does.
			paddr := "<" + s.addr + ">"
			mintSeq++
			parentSID, familySID := fmt.Sprintf("parent:%d:%d", os.Getpid(), mintSeq), fmt.Sprintf("family:%d:%d", os.Getpid(), mintSeq)
			var pc []string
			var pcmds []int
			for i, cm := range cmds {
				if op.V&(1<<uint(i)) != 0 || i == op.Cmd%4 {
					pc = append(pc, fmt.Sprint(cm))
					pcmds = append(pcmds, cm)
				}
			}
			_ = os.Setenv("CONDOR_INHERIT", "4242 "+paddr)
			_ = os.Setenv("CONDOR_PRIVATE_INHERIT", "SessionKey:"+parentSID+`#[Encryption="YES";Integrity="YES";CryptoMethodsList="AES";ValidCommands="`+strings.Join(pc, ",")+`"]#`+
				"0123456789abcdef0123456789abcdef0123456789abcdef"+" FamilySessionKey:"+familySID+`#[Encryption="YES";Integrity="YES";CryptoMethodsList="AES"]#`+
				"fedcba9876543210fedcba9876543210fedcba9876543210")
			security.VerifResetProcessState()
			n, err := security.VerifRegisterInherited(cache)
			_ = os.Unsetenv("CONDOR_INHERIT")
			_ = os.Unsetenv("CONDOR_PRIVATE_INHERIT")
			security.VerifResetProcessState() // (the process-wide cache starts over too: for the servers of this history that is a restart)
			if err != nil || n != 2 {
				return fail("C07 harness: registering two inherited sessions gave %d, %v", n, err)
			}
			for _, cm := range pcmds {
				md.route[routeKey{"", paddr, cm}] = parentSID
			}
			md.clientLive[parentSID], md.clientLive[familySID] = true, true
			md.owner[parentSID], md.owner[familySID] = routeKey{"", paddr, pcmds[0]}, routeKey{"", paddr, 60008}
			// the routes as the cache itself reports them
			for _, cm := range cmds {
				e, ok := cache.LookupByCommand("", paddr, fmt.Sprint(cm))
				want, has := md.route[routeKey{"", paddr, cm}]
				switch {
				case ok && (!has || e.ID() != want) && (e.ID() == parentSID || e.ID() == familySID):
					return fail("after inheriting a parent session valid for %v and a family session valid for nothing, command %d at %s leads to %s", pcmds, cm, paddr, e.ID())
				case has && want == parentSID && (!ok || e.ID() != parentSID):
					return fail("the inherited parent session declares command %d valid but the route at %s does not lead to it", cm, paddr)
				}
			}
			st.crossTriple = true
		case "mint":
			// a session pre-registered by the application for outbound use (a startd's claim session towards
			// its schedd): filed under (tag, address, command) like any other
			tag, cmd := tags[op.Tag%3], cmds[op.Cmd%4]
			key := routeKey{tag, addrKey(s, op.API), cmd}
			mintSeq++
			m, err := security.MintClaimSession(cache, security.MintClaimOptions{Sinful: fmt.Sprintf("<10.9.8.7:%d>", 9000+mintSeq), Birthdate: 1700000000, SequenceNum: mintSeq,
				PeerAddr: key.addr, Tag: tag, ExtraValidCommands: []int{cmd}})
			if err != nil {
				return fail("C07 harness: mint: %v", err)
			}
			if old, ok := md.route[key]; ok && old != m.SessionID() {
				_ = old // the newer registration takes the route
			}
			md.route[key] = m.SessionID()
			md.clientLive[m.SessionID()] = true
			md.owner[m.SessionID()] = key
			st.crossTriple = true
		case "handshake":
			tag, cmd := tags[op.Tag%3], cmds[op.Cmd%4]
			st.tags[op.Tag%3], st.servers[op.Srv%3] = true, true
			key := routeKey{tag, addrKey(s, op.API), cmd}
			mustResume := prevFullKey != nil && *prevFullKey == key && tag == ""
			prevFullKey = nil
			cfg := kit.BaseConfig(security.SecurityRequired, security.SecurityOptional, security.AuthClaimToBe)
			if c.Shared {
				cfg = sharedCfg
			}
			cfg.SessionCache, cfg.SecurityTag, cfg.Command = cache, tag, cmd
			// a sub-command travelling in the handshake (AuthCommand) is not the command the session is used for:
			// the cached session is found by (tag, address, Command) whatever sub-command is named
			cfg.AuthCommand = 0
			if op.Sub {
				cfg.AuthCommand = cmds[(op.Cmd+1+op.V%3)%4]
			}
			for k, sid := range md.route {
				if md.clientLive[sid] && k != key && (k.tag != key.tag || k.addr != key.addr) {
					st.crossTriple = true
				}
			}
			for _, x := range servers {
				x.takeLog()
			}
			ctx, cancel := context.WithTimeout(context.Background(), 5*time.Second)
			var herr error
			var cst *stream.Stream
			if op.API == 0 {
				conn, err := net.Dial("tcp", s.addr)
				if err != nil {
					cancel()
					return fail("dial: %v", err)
				}
				cst = stream.NewStream(conn)
				_, herr = security.NewAuthenticator(cfg, cst).ClientHandshake(ctx)
				if herr != nil {
					_ = conn.Close()
				}
			} else {
				cl, err := client.ConnectAndAuthenticateWithConfig(ctx, &client.ClientConfig{Address: s.addr, Security: cfg, Timeout: 3 * time.Second})
				herr = err
				if err == nil {
					cst = cl.GetStream()
				}
			}
			if herr == nil {
				if err := cst.SendMessage(ctx, []byte("hello")); err == nil {
					_, _ = cst.ReceiveCompleteMessage(ctx)
				}
				_ = cst.Close()
			}
			cancel()
			// wait for the server goroutines of this action to log
			var logs []connLog
			for tries := 0; tries < 200; tries++ {
				logs = append(logs, s.takeLog()...)
				want := 1
				if len(logs) >= want && (herr != nil || logs[len(logs)-1].fullSid != "" || logs[len(logs)-1].resumeSid != "") {
					break
				}
				time.Sleep(2 * time.Millisecond)
			}
			time.Sleep(5 * time.Millisecond)
			logs = append(logs, s.takeLog()...)
			sort.Slice(logs, func(i, j int) bool { return logs[i].seq < logs[j].seq })
			for _, x := range servers {
				if x != s {
					if l := x.takeLog(); len(l) > 0 {
						return fail("the client connected to a different server (%s)", x.addr)
					}
				}
			}
			for ci, l := range logs {
				if l.resumeSid != "" {
					st.resumptions++
					want, ok := md.route[key]
					if !ok || want != l.resumeSid {
						own := md.owner[l.resumeSid]
						return fail("connection %d presented session %s, which was established for (tag %q, %s); the reference map has %q for this (tag, address, command)",
							ci, l.resumeSid, own.tag, own.addr, want)
					}
					if !md.clientLive[l.resumeSid] {
						return fail("connection %d presented session %s although it was expired/invalidated on the client", ci, l.resumeSid)
					}
					if l.broke == "close" || l.broke == "garbage" || !serverHas(s, l.resumeSid) && l.broke == "" {
						// the resumption failed: everything about the session must be gone
						st.failedResumes++
						drop(l.resumeSid)
						if v := noRouteTo(l.resumeSid); v != "" {
							return fail("after a failed resumption (%s) %s", orStr(l.broke, "session unknown to the server"), v)
						}
						if ci+1 < len(logs) && logs[ci+1].resumeSid != "" {
							return fail("the attempt after a failed resumption was again a resumption (of %s)", logs[ci+1].resumeSid)
						}
					}
					// a DENIED reply is "either": the statement speaks of a session the server no longer
					// knows and of a broken exchange; the model keeps the session, the client may keep or drop it
				} else if l.fullSid != "" {
					st.fulls++
					s.mu.Lock()
					valid := append([]int(nil), s.valid...)
					s.mu.Unlock()
					if len(valid) == 0 {
						valid = []int{cmd}
					}
					md.clientLive[l.fullSid] = true
					md.owner[l.fullSid] = key
					for _, cm := range valid {
						md.route[routeKey{tag, key.addr, cm}] = l.fullSid
					}
					for _, cm := range valid {
						if cm == cmd {
							k2 := key
							prevFullKey = &k2
						}
					}
					continue
				}
			}
			// non-vacuity: an immediate untagged repeat of the triple that just created a
			// route for itself must ride that session (otherwise the check could pass vacuously)
			if mustResume && herr == nil && (len(logs) == 0 || logs[0].resumeSid == "") {
				return fail("an immediate repeat of the same untagged (address, command) did not resume the session just established")
			}
		}
		if op.K != "handshake" {
			prevFullKey = nil
		}
	}
	return "", st
}

func serverHas(s *srv, sid string) bool {
	_, ok := security.GetSessionCache().Lookup(sid)
	return ok
}

func orStr(a, b string) string {
	if a != "" {
		return a
	}
	return b
}

func genCase(t *rapid.T) Case {
	var c Case
	c.Shared = rapid.Bool().Draw(t, "shared")
	n := rapid.IntRange(3, 12).Draw(t, "nops")
	for i := 0; i < n; i++ {
		k := rapid.SampledFrom([]string{"handshake", "handshake", "handshake", "handshake", "handshake", "policy", "restart", "break", "expire", "invalidate", "sweep", "mint", "inherit"}).Draw(t, "op")
		c.Ops = append(c.Ops, Op{K: k, Tag: rapid.IntRange(0, 2).Draw(t, "tag"), Srv: rapid.IntRange(0, 2).Draw(t, "srv"),
			Cmd: rapid.IntRange(0, 3).Draw(t, "cmd"), API: rapid.IntRange(0, 1).Draw(t, "api"), V: rapid.IntRange(0, 15).Draw(t, "v"), Sub: k == "handshake" && rapid.IntRange(0, 3).Draw(t, "sub") == 0})
	}
	return c
}

func record(c Case, st stats) {
	k := ""
	if (len(st.tags) >= 2 || len(st.servers) >= 2) && st.crossTriple {
		b, _ := json.Marshal(c)
		k = string(b)
	}
	ev.Case("history", k)
	ev.Count("resumption_requests_seen_on_the_wire", int64(st.resumptions))
	ev.Count("full_handshakes", int64(st.fulls))
	ev.Count("failed_resumptions", int64(st.failedResumes))
}

func TestC07Histories(t *testing.T) {
	rapid.Check(t, func(t *rapid.T) {
		c := genCase(t)
		v, st := runCase(c)
		record(c, st)
		ev.Sample("history", c)
		if v != "" {
			js, _ := json.Marshal(c)
			t.Fatalf("C07 violated: %s\ncase: %s", v, js)
		}
	})
}

// TestC07Directed: the small scripted scenarios every run must cover.
// fixedAddrConn is a carrier connection: whatever it leads to, its transport-level remote address is the
// tunnel mouth, the same for every broker reached through the carrier.
type fixedAddrConn struct {
	net.Conn
}

type tunnelAddr struct{}

func (tunnelAddr) Network() string { return "tunnel" }
func (tunnelAddr) String() string  { return "tunnel-mouth:0" }

func (fixedAddrConn) RemoteAddr() net.Addr { return tunnelAddr{} }

// TestC07Carrier: a CCB listener registering through a custom carrier (BrokerDialer) with two different
// brokers, one cache: the session negotiated with broker A belongs to broker A's ADDRESS, not to the tunnel.
func TestC07Carrier(t *testing.T) {
	security.ClearSessionCache()
	names := map[string]*srv{"broker-a.example:9618": servers[0], "broker-b.example:9618": servers[1]}
	for _, s := range servers {
		s.mu.Lock()
		s.valid, s.breakNxt, s.sids, s.log = []int{ccb.CommandRegister}, "", nil, nil
		s.mu.Unlock()
	}
	sec := kit.BaseConfig(security.SecurityRequired, security.SecurityRequired, security.AuthClaimToBe)
	dial := func(ctx context.Context, addr string) (net.Conn, error) {
		s := names[addr]
		if s == nil {
			return nil, fmt.Errorf("unknown broker %q", addr)
		}
		c, err := net.Dial("tcp", s.addr)
		if err != nil {
			return nil, err
		}
		return fixedAddrConn{c}, nil
	}
	owner := map[string]string{} // session id -> broker it was negotiated with
	for step, name := range []string{"broker-a.example:9618", "broker-b.example:9618", "broker-a.example:9618", "broker-b.example:9618"} {
		s := names[name]
		s.takeLog()
		ctx, cancel := context.WithTimeout(context.Background(), 3*time.Second)
		l := ccb.NewListener(ccb.ListenerConfig{BrokerAddr: name, Security: sec, Dial: dial, Name: "verif", Handler: func(c net.Conn, _ ccb.InboundMeta) { _ = c.Close() }})
		done := make(chan struct{})
		go func() { _ = l.Run(ctx); close(done) }()
		var logs []connLog
		for tries := 0; tries < 400 && len(logs) == 0; tries++ {
			time.Sleep(5 * time.Millisecond)
			logs = append(logs, s.takeLog()...)
		}
		time.Sleep(30 * time.Millisecond)
		logs = append(logs, s.takeLog()...)
		cancel()
		<-done
		ev.Case("carrier/"+name, fmt.Sprintf("carrier:%d", step))
		for _, other := range servers {
			if other != s {
				if l := other.takeLog(); len(l) > 0 {
					kit.Violation("C07", "the listener for "+name+" connected to a different broker", map[string]any{"carrier_step": step})
					t.Fatalf("C07 violated: the listener for %s connected to a different broker", name)
				}
			}
		}
		if len(logs) == 0 {
			t.Logf("inconclusive: no connection reached broker %s", name)
			continue
		}
		first := logs[0]
		if first.resumeSid != "" {
			if o := owner[first.resumeSid]; o != name {
				v := fmt.Sprintf("registering with %s through the carrier, the client presented session %s, which it negotiated with %q: sessions reached through one carrier are filed under the tunnel, not under the broker's address", name, first.resumeSid, o)
				kit.Violation("C07", v, map[string]any{"carrier_step": step})
				t.Fatalf("C07 violated: %s", v)
			}
		}
		for _, l := range logs {
			if l.fullSid != "" {
				owner[l.fullSid] = name
			}
		}
	}
	ev.Exhaustive("a CCB listener registering through one carrier with broker A, broker B, A again, B again, sharing one session cache")
}

func TestC07Directed(t *testing.T) {
	hs := func(tag, srv, cmd, api int) Op { return Op{K: "handshake", Tag: tag, Srv: srv, Cmd: cmd, API: api} }
	var cases []Case
	for api := 0; api < 2; api++ {
		for tg := 0; tg < 3; tg++ {
			for other := 0; other < 3; other++ {
				// establish under tg, then try every other tag, server and command
				cases = append(cases, Case{Ops: []Op{hs(tg, 0, 0, api), hs(tg, 0, 0, api), hs(other, 0, 0, api), hs(tg, 1, 0, api), hs(tg, 0, 2, api), hs(other, 0, 1, api)}})
			}
			cases = append(cases, Case{Ops: []Op{hs(tg, 0, 0, api), {K: "restart", Srv: 0}, hs(tg, 0, 0, api), hs(tg, 0, 0, api)}})
			for v := 0; v < 3; v++ {
				cases = append(cases, Case{Ops: []Op{hs(tg, 0, 0, api), {K: "break", Srv: 0, V: v}, hs(tg, 0, 0, api), hs(tg, 0, 0, api)}})
			}
			cases = append(cases, Case{Ops: []Op{hs(tg, 0, 0, api), {K: "expire", V: 1}, hs(tg, 0, 0, api), hs(tg, 0, 1, api)}})
			cases = append(cases, Case{Ops: []Op{hs(tg, 0, 0, api), {K: "expire", V: 0}, hs(tg, 0, 1, api)}})
			// expired lazily, noticed by the next handshake's lookup (which drops the entry), THEN swept
			cases = append(cases, Case{Ops: []Op{hs(tg, 0, 0, api), {K: "expire", V: 1}, hs(tg, 0, 0, api), {K: "sweep"}, hs(tg, 0, 1, api)}})
			cases = append(cases, Case{Ops: []Op{{K: "policy", Srv: 0, V: 15}, hs(tg, 0, 0, api), {K: "expire", V: 1}, hs(tg, 0, 2, api), {K: "sweep"}, {K: "invalidate"}, {K: "sweep"}}})
			cases = append(cases, Case{Ops: []Op{hs(tg, 0, 0, api), {K: "expire", V: 3}, {K: "sweep"}, hs(tg, 0, 1, api)}})
			for v := 0; v < 3; v++ { // a session routed for one command only; then another command naming the first as its sub-command
				cases = append(cases, Case{Ops: []Op{{K: "policy", Srv: 0, V: 1}, hs(tg, 0, 0, api), {K: "handshake", Tag: tg, Srv: 0, Cmd: 3 - v, API: api, Sub: true, V: v}, hs(tg, 0, 0, api)}})
			}
			for v := 0; v < 4; v++ { // inherited parent + family sessions, then handshakes for declared and undeclared commands
				cases = append(cases, Case{Ops: []Op{{K: "inherit", Srv: 0, Cmd: v, V: v * 5}, hs(tg, 0, v, api), hs(tg, 0, (v+1)%4, api), hs(0, 0, (v+2)%4, api), hs(0, 1, v, api)}})
			}
			cases = append(cases, Case{Ops: []Op{hs(tg, 0, 0, api), hs(tg, 1, 0, api), {K: "expire", V: 3}, {K: "sweep"}, {K: "expire", V: 3}, {K: "sweep"}, hs(tg, 0, 1, api)}})
			cases = append(cases, Case{Ops: []Op{hs(tg, 0, 0, api), {K: "invalidate"}, hs(tg, 0, 0, api), hs(tg, 0, 1, api)}})
			for other := 0; other < 3; other++ { // a minted session under tg; handshakes under every tag, another server, another command
				cases = append(cases, Case{Ops: []Op{{K: "mint", Tag: tg, Srv: 0, Cmd: 0, API: api}, hs(other, 0, 0, api), hs(other, 1, 0, api), hs(other, 0, 1, api), hs(tg, 0, 0, api)}})
			}
		}
	}
	for _, c := range append([]Case(nil), cases...) { // the same scenarios with one configuration object reused throughout
		cases = append(cases, Case{Ops: c.Ops, Shared: true})
	}
	bad := 0
	for i, c := range cases {
		v, st := runCase(c)
		record(c, st)
		if i < 2 {
			ev.Sample("directed", c)
		}
		if v != "" && bad < 5 {
			bad++
			kit.Violation("C07", v, c)
			t.Errorf("C07 violated: %s", v)
		}
	}
	ev.Exhaustive("directed scenarios: every (establishing tag, other tag) pair x both client APIs, followed by other server / other command; restart, 3 kinds of broken resumption, expiry (lazy and swept) and invalidation for every tag")
}

func TestC07Replay(t *testing.T) {
	var c Case
	ok, err := kit.ReplayCase(&c)
	if !ok {
		t.Skip("no VERIF_REPLAY")
	}
	if err != nil {
		t.Fatal(err)
	}
	if v, _ := runCase(c); v != "" {
		t.Fatalf("C07 violated: %s", v)
	}
}

func init() { startServers() }
