// Package c08 decides property C08: ClassAds survive the wire and the
// decoder's literal shortcuts agree with the full ClassAd parser.
package c08

import (
	"bytes"
	"encoding/json"
	"fmt"
	"io"
	"strings"
	"testing"
	"unicode/utf8"

	"github.com/PelicanPlatform/classad/classad"
	"github.com/bbockelm/cedar/message"
	"github.com/bbockelm/cedar/stream"
	"pgregory.net/rapid"

	"verifharness/kit"
)

func TestMain(m *testing.M) { kit.Main(m) }

var ev = kit.Ev("C08")

func init() {
	ev.Rule("encode side: ads of 0-25 attributes generated from an expression grammar (nested operators, calls, lists, records, escapes, UTF-8, numeric extremes, mixed-case booleans), " +
		"sent with PutClassAd / ServerTime option / PutClassAdRaw / PutClassAdRawBytes on plain and AES streams between other typed values, in the sender's framing and re-cut at a generated position; " +
		"oracle: the raw receiver captures the rendered text, the full parser parses it, the parsing receiver must return exactly those names with Equal (or equally rendering / equally evaluating closed) expressions and the type names; " +
		"GetClassAd, GetClassAdRaw and SkipClassAdRaw must all leave the stream at the same sentinel. Decode side: value texts over the literal alphabet (exhaustive to length 4 over 14 symbols, random beyond) " +
		"wrapped as 'A = v' with blanks: parser accepts => receiver accepts an equal value; parser rejects => receiver rejects (or, for a lone old-ClassAd quoted string, yields the harness-computed string); " +
		"non-trivial = ad with a non-literal expression or an escaped string / text that exercises a shortcut branch; distinct by rendered text")
	ev.Assume("github.com/PelicanPlatform/classad's parser is the oracle the property names; type names are generated as identifiers (the raw receiver documents that it rejects type names containing = or quotes)")
}

type Attr struct {
	Name string `json:"n"`
	Text string `json:"t"`
}

type EncCase struct {
	AES     bool   `json:"aes"`
	Sender  int    `json:"sender"` // 0 PutClassAd, 1 ServerTime option, 2 PutClassAdRaw, 3 PutClassAdRawBytes
	Attrs   []Attr `json:"attrs"`
	MyType  string `json:"mytype"` // "" absent, "=5" non-string, otherwise the string
	TgtType string `json:"tgttype"`
	Recut   int    `json:"recut"`
	Big     int    `json:"big"` // extra long string attributes to force several frames
	// Huge > 0: one more attribute whose rendered "Name = value" string is Huge bytes long (around and above the
	// 1 MiB frame limit, where the string sender has to split one string over several frames)
	Huge int `json:"huge,omitempty"`
}

const sentinel = 424242

func closedEqual(a, b *classad.Expr) bool {
	empty := classad.New()
	if len(empty.ExternalRefs(a)) != 0 || len(empty.ExternalRefs(b)) != 0 {
		return false
	}
	va, vb := a.Eval(empty), b.Eval(empty)
	return va.Type() == vb.Type() && va.String() == vb.String()
}

func sameExpr(got, want *classad.Expr) bool {
	return got.Equal(want) || got.String() == want.String() || closedEqual(got, want)
}

type encStats struct {
	dropped, unparsable, compared int
	nonLiteral                    bool
	frames                        int
	rendered                      string
}

func buildAd(c EncCase, st *encStats) (*classad.ClassAd, []string) {
	ad := classad.New()
	var names []string
	seen := map[string]bool{}
	add := func(n, text string) {
		ln := strings.ToLower(n)
		if seen[ln] {
			return
		}
		e, err := classad.ParseExpr(text)
		if err != nil {
			st.dropped++
			return
		}
		seen[ln] = true
		ad.InsertExpr(n, e)
		names = append(names, n)
	}
	for _, a := range c.Attrs {
		add(a.Name, a.Text)
	}
	for i := 0; i < c.Big; i++ {
		add(fmt.Sprintf("Big%d", i), `"`+strings.Repeat("longvalue-", 900+i)+`"`)
	}
	if c.Huge > 0 {
		// `HugeM = "xxx...x"`: 10 bytes of name, blanks, '=' and quotes around the filler (the name sorts into the
		// middle of the ad, so other strings follow it on the wire)
		if n := c.Huge - 10; n > 0 {
			add("HugeM", `"`+strings.Repeat("h", n)+`"`)
		}
	}
	setType := func(attr, v string) {
		switch {
		case v == "":
		case v == "=5":
			add(attr, "5")
		default:
			add(attr, `"`+v+`"`)
		}
	}
	setType("MyType", c.MyType)
	setType("TargetType", c.TgtType)
	return ad, names
}

func typeString(v string) string {
	if v == "=5" {
		return ""
	}
	return v
}

func runEnc(c EncCase) (string, encStats) {
	var st encStats
	ad, names := buildAd(c, &st)
	key := kit.Pattern(32, 808)
	ca := kit.NewMemConn()
	ca.RecordWrites = true
	A := stream.NewStream(ca)
	if c.AES {
		_ = A.SetSymmetricKey(key)
	}
	msg := message.NewMessageForStream(A)
	if err := msg.PutInt(kit.Bg, 111); err != nil {
		return err.Error(), st
	}
	var err error
	switch c.Sender {
	case 0:
		err = msg.PutClassAd(kit.Bg, ad)
	case 1:
		err = msg.PutClassAdWithOptions(kit.Bg, ad, &message.PutClassAdConfig{Options: message.PutClassAdServerTime})
	case 2, 3:
		var exprs []string
		var bexprs [][]byte
		// the byte-slice sender is handed sub-slices that sit back to back in ONE scratch buffer (what a
		// caller re-serialising a stored ad does): the sender may neither mix them up nor write to the buffer
		var shared []byte
		var cuts []int
		for _, n := range names {
			e, _ := ad.Lookup(n)
			s := n + " = " + e.String()
			exprs = append(exprs, s)
			shared = append(shared, s...)
			cuts = append(cuts, len(shared))
		}
		shared = append(shared, "#tail-guard#"...)
		pristine := append([]byte(nil), shared...)
		prev := 0
		for _, c := range cuts {
			bexprs = append(bexprs, shared[prev:c])
			prev = c
		}
		if c.Sender == 2 {
			err = msg.PutClassAdRaw(kit.Bg, exprs, typeString(c.MyType), typeString(c.TgtType))
		} else {
			err = msg.PutClassAdRawBytes(kit.Bg, bexprs, typeString(c.MyType), typeString(c.TgtType))
			if err == nil && !bytes.Equal(shared, pristine) {
				return "PutClassAdRawBytes modified the caller's buffer: " + kit.FirstDiff(pristine, shared), st
			}
		}
	}
	if err != nil {
		return "sender refused the ad: " + err.Error(), st
	}
	if err := msg.PutInt(kit.Bg, sentinel); err != nil {
		return err.Error(), st
	}
	if err := msg.FinishMessage(kit.Bg); err != nil {
		return err.Error(), st
	}
	wire := append([]byte(nil), ca.Out...)
	st.frames = len(ca.WriteLog)
	// plaintext of the message, for the re-cut
	zero := make([]byte, 32)
	var plain []byte
	if c.AES {
		rd, _ := kit.NewRefDir(key)
		for _, w := range ca.WriteLog {
			fr, _ := kit.ParseFrames(w)
			pt, err := rd.Open(fr[0], zero, zero)
			if err != nil {
				return "reference codec cannot open the sender's frame: " + err.Error(), st
			}
			plain = append(plain, pt...)
		}
	} else {
		for _, w := range ca.WriteLog {
			fr, _ := kit.ParseFrames(w)
			plain = append(plain, fr[0].Body...)
		}
	}
	recutWire := func() []byte {
		cut := 0
		if len(plain) > 0 {
			cut = c.Recut % (len(plain) + 1)
		}
		pieces := [][]byte{plain[:cut], plain[cut:]}
		var out []byte
		var hs *kit.RefDir
		if c.AES {
			hs, _ = kit.NewRefDir(key)
			copy(hs.BaseIV[:], kit.Pattern(16, uint32(c.Recut)))
			hs.HaveIV = true
		}
		for i, pc := range pieces {
			for len(pc) > 900000 {
				if c.AES {
					out = append(out, hs.Seal(0, pc[:900000], zero, zero)...)
				} else {
					out = append(out, kit.BuildFrame(0, pc[:900000])...)
				}
				pc = pc[900000:]
			}
			end := byte(0)
			if i == len(pieces)-1 {
				end = 1
			}
			if c.AES {
				out = append(out, hs.Seal(end, pc, zero, zero)...)
			} else {
				out = append(out, kit.BuildFrame(end, pc)...)
			}
		}
		return out
	}
	receiver := func(w []byte) (*message.Message, *kit.MemConn, error) {
		cc := kit.NewMemConn()
		S := stream.NewStream(cc)
		if c.AES {
			_ = S.SetSymmetricKey(key)
		}
		cc.Feed(w)
		m := message.NewMessageFromStream(S)
		v, err := m.GetInt(kit.Bg)
		if err != nil || v != 111 {
			return nil, nil, fmt.Errorf("leading integer: %d %v", v, err)
		}
		return m, cc, nil
	}
	after := func(m *message.Message, cc *kit.MemConn, who string) string {
		v, err := m.GetInt(kit.Bg)
		if err != nil || v != sentinel {
			return fmt.Sprintf("%s did not leave the stream at the sentinel (read %d, err %v): receivers consume different bytes", who, v, err)
		}
		if _, err := m.GetChar(kit.Bg); err != io.EOF {
			return fmt.Sprintf("%s: message does not end after the sentinel (err=%v)", who, err)
		}
		if cc.Pending() != 0 {
			return fmt.Sprintf("%s: %d wire bytes unread", who, cc.Pending())
		}
		return ""
	}
	for wi, w := range [][]byte{wire, recutWire()} {
		tag := []string{"sender framing", "re-cut framing"}[wi]
		// raw receiver
		m, cc, err := receiver(w)
		if err != nil {
			return tag + ": " + err.Error(), st
		}
		raw, err := m.GetClassAdRaw(kit.Bg)
		if err != nil {
			return fmt.Sprintf("%s: GetClassAdRaw rejected what the sender produced: %v", tag, err), st
		}
		if v := after(m, cc, tag+": GetClassAdRaw"); v != "" {
			return v, st
		}
		// skipping receiver
		m, cc, err = receiver(w)
		if err != nil {
			return tag + ": " + err.Error(), st
		}
		if err := m.SkipClassAdRaw(kit.Bg); err != nil {
			return fmt.Sprintf("%s: SkipClassAdRaw rejected what the sender produced: %v", tag, err), st
		}
		if v := after(m, cc, tag+": SkipClassAdRaw"); v != "" {
			return v, st
		}
		// parsing receiver
		m, cc, err = receiver(w)
		if err != nil {
			return tag + ": " + err.Error(), st
		}
		var got *classad.ClassAd
		if wi == 0 {
			got, err = m.GetClassAd(kit.Bg)
		} else {
			got, err = m.GetClassAdWithMaxSize(kit.Bg, 64<<20)
		}
		// expected, from the rendered text and the full parser
		st.rendered = raw
		type exp struct {
			name string
			want *classad.Expr
		}
		var exps []exp
		parserRejects := false
		for _, line := range strings.Split(strings.TrimSuffix(raw, "\n"), "\n") {
			if line == "" {
				continue
			}
			eq := strings.Index(line, "=")
			if eq < 0 {
				return fmt.Sprintf("%s: raw receiver produced a line without '=': %q", tag, line), st
			}
			name, val := strings.TrimSpace(line[:eq]), line[eq+1:]
			w, perr := classad.ParseExpr(val)
			if perr != nil {
				parserRejects = true
				st.unparsable++
				continue
			}
			exps = append(exps, exp{name, w})
		}
		// the raw receiver renders the type names itself (from the trailing type strings): whatever the
		// attribute lines hold, the full parser must read exactly the sender's names back from those lines
		for _, ty := range []struct{ attr, v string }{{"MyType", c.MyType}, {"TargetType", c.TgtType}} {
			if ty.v == "" || ty.v == "=5" {
				continue
			}
			found := false
			for _, line := range strings.Split(raw, "\n") {
				eq := strings.Index(line, "=")
				if eq < 0 || !strings.EqualFold(strings.TrimSpace(line[:eq]), ty.attr) {
					continue
				}
				found = true
				w, perr := classad.ParseExpr(line[eq+1:])
				if perr != nil {
					return fmt.Sprintf("%s: raw receiver rendered type name %q as %q, which the full parser rejects: %v", tag, ty.v, line, perr), st
				}
				tmp := classad.New()
				tmp.InsertExpr("T", w)
				if sv, ok := tmp.EvaluateAttrString("T"); !ok || sv != ty.v {
					return fmt.Sprintf("%s: raw receiver rendered type name %q as %q, which the full parser reads as %q", tag, ty.v, line, sv), st
				}
			}
			if !found {
				return fmt.Sprintf("%s: raw receiver lost the sender's %s %q", tag, ty.attr, ty.v), st
			}
		}
		if err != nil {
			if parserRejects {
				continue // the library rendered text its own parser rejects: outside the statement
			}
			return fmt.Sprintf("%s: GetClassAd rejected what the sender produced: %v", tag, err), st
		}
		if v := after(m, cc, tag+": GetClassAd"); v != "" {
			return v, st
		}
		wantNames := map[string]bool{}
		for _, e := range exps {
			wantNames[strings.ToLower(e.name)] = true
			g, ok := got.Lookup(e.name)
			if !ok {
				return fmt.Sprintf("%s: attribute %s missing at the receiver", tag, e.name), st
			}
			st.compared++
			// MyType/TargetType lines are appended by the raw receiver from the trailing type strings
			if !sameExpr(g, e.want) {
				return fmt.Sprintf("%s: attribute %s: receiver has %s, the parser assigns %s to the rendered text", tag, e.name, g.String(), e.want.String()), st
			}
		}
		if !parserRejects {
			for _, n := range got.GetAttributes() {
				if !wantNames[strings.ToLower(n)] {
					return fmt.Sprintf("%s: receiver has attribute %s that the sender did not send", tag, n), st
				}
			}
			for _, n := range names {
				if !wantNames[strings.ToLower(n)] {
					return fmt.Sprintf("%s: sender's attribute %s never reached the wire", tag, n), st
				}
			}
		}
		for _, ty := range []struct{ attr, v string }{{"MyType", c.MyType}, {"TargetType", c.TgtType}} {
			if ty.v != "" && ty.v != "=5" {
				s, ok := got.EvaluateAttrString(ty.attr)
				if !ok || s != ty.v {
					return fmt.Sprintf("%s: %s is %q at the receiver, sender had %q", tag, ty.attr, s, ty.v), st
				}
			}
		}
	}
	for _, a := range c.Attrs {
		t := strings.TrimSpace(a.Text)
		if !(len(t) > 0 && (t[0] == '"' || t[0] == '-' || (t[0] >= '0' && t[0] <= '9')) && !strings.ContainsAny(t, " (")) || strings.Contains(t, `\`) {
			st.nonLiteral = true
		}
	}
	return "", st
}

// type names: the usual identifiers, plus names the type-name rule also admits (anything without '=', quote,
// backslash or line break, up to 128 bytes): printable non-ASCII text, blanks and punctuation
var typeNames = []string{"", "", "Machine", "Job", "Scheduler", "=5", "DaemonMaster", "x", "Mäschine", "作业-Ω", "Sched uler", "a.b-c_d:e/f(g)", "Jöb"}

func genEnc(t *rapid.T) EncCase {
	c := EncCase{AES: rapid.Bool().Draw(t, "aes"), Sender: rapid.IntRange(0, 3).Draw(t, "sender"),
		MyType: rapid.SampledFrom(typeNames).Draw(t, "mytype"), TgtType: rapid.SampledFrom(typeNames).Draw(t, "tgttype"),
		Recut: rapid.IntRange(0, 1<<20).Draw(t, "recut")}
	n := rapid.IntRange(0, 25).Draw(t, "nattrs")
	if rapid.IntRange(0, 9).Draw(t, "bigcase") == 0 {
		c.Big = rapid.IntRange(2, 8).Draw(t, "big")
	}
	for i := 0; i < n; i++ {
		name := rapid.SampledFrom([]string{"Attr", "cpus", "MEMORY", "x", "Requirements", "Rank", "a_b", "Name", "Str", "L"}).Draw(t, "aname") + fmt.Sprint(i)
		var text string
		switch rapid.IntRange(0, 3).Draw(t, "akind") {
		case 0:
			text = kit.GenLiteral(t)
		default:
			text = kit.GenExpr(t, rapid.IntRange(0, 3).Draw(t, "depth"))
		}
		if rapid.IntRange(0, 7).Draw(t, "blank") == 0 {
			text = "  " + text + " "
		}
		c.Attrs = append(c.Attrs, Attr{name, text})
	}
	return c
}

func TestC08Encode(t *testing.T) {
	rapid.Check(t, func(t *rapid.T) {
		c := genEnc(t)
		v, st := runEnc(c)
		k := ""
		if st.nonLiteral && st.compared > 0 {
			k = st.rendered
		}
		class := fmt.Sprintf("sender%d/aes=%v", c.Sender, c.AES)
		ev.Case(class, k)
		if st.frames > 1 {
			ev.Class("multi-frame-ad")
		}
		ev.Count("attributes_compared", int64(st.compared))
		ev.Count("generator_text_rejected_by_parser", int64(st.dropped))
		ev.Count("rendered_text_rejected_by_parser(outside statement)", int64(st.unparsable))
		if len(c.Attrs) < 4 && c.Big == 0 {
			ev.Sample("encode", c)
		}
		if v != "" {
			js, _ := json.Marshal(c)
			t.Fatalf("C08 violated: %s\ncase: %s", v, js)
		}
	})
}

// ---------------------------------------------------------------------------
// decode side
// ---------------------------------------------------------------------------

type DecCase struct {
	V    string `json:"v"`
	Pre  string `json:"pre"`  // blanks before '='
	Mid  string `json:"mid"`  // blanks after '='
	Post string `json:"post"` // blanks at the end
	AES  bool   `json:"aes"`
}

// oldLoneString implements the documented old-ClassAd fallback: a value that is
// a single quoted string in which a backslash is literal except before a quote.
func oldLoneString(v string) (string, bool) {
	t := strings.TrimSpace(v)
	if len(t) < 2 || t[0] != '"' || t[len(t)-1] != '"' {
		return "", false
	}
	in := t[1 : len(t)-1]
	var b strings.Builder
	for i := 0; i < len(in); i++ {
		if in[i] == '\\' && i+1 < len(in) && in[i+1] == '"' {
			b.WriteByte('"')
			i++
			continue
		}
		if in[i] == '"' {
			return "", false
		}
		b.WriteByte(in[i])
	}
	return b.String(), true
}

func branch(v string) string {
	t := strings.TrimSpace(v)
	u := strings.ToUpper(t)
	switch {
	case u == "TRUE" || u == "FALSE":
		return "boolean"
	case len(t) >= 2 && t[0] == '"' && t[len(t)-1] == '"':
		return "quoted"
	case len(t) > 0 && (t[0] == '-' || (t[0] >= '0' && t[0] <= '9')):
		if strings.Contains(t, ".") {
			return "real-looking"
		}
		return "integer-looking"
	}
	return ""
}

func runDec(c DecCase) string {
	ca := kit.NewMemConn()
	A := stream.NewStream(ca)
	key := kit.Pattern(32, 909)
	if c.AES {
		_ = A.SetSymmetricKey(key)
	}
	msg := message.NewMessageForStream(A)
	exprText := "A" + c.Pre + "=" + c.Mid + c.V + c.Post
	if strings.Contains(exprText, "\x00") {
		return ""
	}
	if err := msg.PutClassAdRaw(kit.Bg, []string{exprText}, "", ""); err != nil {
		return "PutClassAdRaw: " + err.Error()
	}
	if err := msg.PutInt(kit.Bg, sentinel); err != nil {
		return err.Error()
	}
	if err := msg.FinishMessage(kit.Bg); err != nil {
		return err.Error()
	}
	cb := kit.NewMemConn()
	B := stream.NewStream(cb)
	if c.AES {
		_ = B.SetSymmetricKey(key)
	}
	cb.Feed(ca.Out)
	got, gerr := message.NewMessageFromStream(B).GetClassAd(kit.Bg)
	valueText := c.Mid + c.V + c.Post
	want, perr := classad.ParseExpr(valueText)
	if perr == nil {
		if gerr != nil {
			return fmt.Sprintf("the parser accepts value text %q (as %s) but the receiver rejects it: %v", valueText, want.String(), gerr)
		}
		g, ok := got.Lookup("A")
		if !ok {
			return fmt.Sprintf("receiver accepted %q but has no attribute A", exprText)
		}
		if !sameExpr(g, want) {
			return fmt.Sprintf("value text %q: receiver has %s, the full parser assigns %s", valueText, g.String(), want.String())
		}
		return ""
	}
	if gerr != nil {
		return ""
	}
	g, ok := got.Lookup("A")
	if s, isOld := oldLoneString(valueText); isOld && ok {
		ws, _ := classad.ParseExpr(classad.Quote(s))
		if gs, isStr := got.EvaluateAttrString("A"); isStr && gs == s {
			return ""
		}
		return fmt.Sprintf("old-ClassAd string %q: receiver has %s, expected the string %s", valueText, g.String(), ws.String())
	}
	gs := "<none>"
	if ok {
		gs = g.String()
	}
	return fmt.Sprintf("the full parser rejects value text %q (%v) but the receiver's shortcut accepted it as %s", valueText, perr, gs)
}

var alphabet14 = []string{"0", "1", "5", "-", "+", ".", "e", "\"", "\\", "a", "T", "x", " ", "_"}
var alphabetFull = []string{"0", "1", "2", "5", "7", "9", "-", "+", ".", "e", "E", "\"", "\\", "a", "b", "t", "r", "u", "f", "l", "s", "T", "R", "U", "F", "A", "L", "S", "x", "X", "n", "i", " ", "_", "(", ")", ",", "'"}

func recDec(c DecCase, v string) {
	b := branch(c.V)
	k := ""
	if b != "" {
		k = c.Pre + "|" + c.Mid + "|" + c.V + "|" + c.Post
	}
	if b == "" {
		b = "no-shortcut"
	}
	ev.Case("decode:"+b, k)
}

// TestC08DecodeExhaustive: all value texts up to length 4 over 14 symbols.
func TestC08DecodeExhaustive(t *testing.T) {
	maxLen := kit.Scale(4, 5)
	bad := map[string]bool{}
	var rec func(prefix string, depth int)
	n := 0
	rec = func(prefix string, depth int) {
		if depth > 0 {
			c := DecCase{V: prefix, Pre: " ", Mid: " ", AES: n%5 == 0}
			n++
			if n%kit.NShards() == kit.Shard() {
				v := runDec(c)
				recDec(c, v)
				if v != "" {
					// one report per shortcut branch / root cause class
					key := branch(prefix)
					if !bad[key] {
						bad[key] = true
						kit.Violation("C08", v, c)
						t.Errorf("C08 violated: %s", v)
					}
				}
			}
		}
		if depth == maxLen {
			return
		}
		for _, s := range alphabet14 {
			rec(prefix+s, depth+1)
		}
	}
	rec("", 0)
	ev.Exhaustive(fmt.Sprintf("every value text of length 1..%d over the 14-symbol alphabet %v", maxLen, alphabet14))
}

func TestC08DecodeRandom(t *testing.T) {
	blanks := []string{"", " ", "  ", "\t"}
	rapid.Check(t, func(t *rapid.T) {
		var v string
		switch rapid.IntRange(0, 4).Draw(t, "shape") {
		case 0: // arbitrary over the full literal alphabet
			n := rapid.IntRange(1, 12).Draw(t, "len")
			for i := 0; i < n; i++ {
				v += rapid.SampledFrom(alphabetFull).Draw(t, "sym")
			}
		case 1: // number-like
			v = rapid.SampledFrom([]string{"", "-", "+", "--"}).Draw(t, "sign")
			n := rapid.IntRange(1, 8).Draw(t, "len")
			if rapid.IntRange(0, 4).Draw(t, "wide") == 0 {
				// digit runs around and beyond the width of a 64-bit integer
				v += rapid.SampledFrom([]string{"922337203685477580", "1844674407370955161", "99999999999999999", "1000000000000000000"}).Draw(t, "stem")
				n = rapid.IntRange(1, 4).Draw(t, "taillen")
			}
			for i := 0; i < n; i++ {
				v += rapid.SampledFrom([]string{"0", "1", "9", ".", "e", "E", "-", "+", "_", "x", "p", "f", "L", " "}).Draw(t, "nsym")
			}
		case 2: // quoted
			v = `"`
			n := rapid.IntRange(0, 8).Draw(t, "len")
			for i := 0; i < n; i++ {
				v += rapid.SampledFrom([]string{"a", `"`, `\`, " ", "+", `\"`, `\\`, `\n`, `\S`, "é", "1"}).Draw(t, "qsym")
			}
			v += `"`
		case 3: // boolean-like
			v = rapid.SampledFrom([]string{"true", "TRUE", "False", "tRuE", "true1", "truex", "T", "falsey", " true ", "true false", "f"}).Draw(t, "b")
		default: // a generated literal or expression (should agree trivially)
			v = kit.GenExpr(t, rapid.IntRange(0, 2).Draw(t, "depth"))
		}
		c := DecCase{V: v, Pre: rapid.SampledFrom(blanks).Draw(t, "pre"), Mid: rapid.SampledFrom(blanks).Draw(t, "mid"),
			Post: rapid.SampledFrom(blanks).Draw(t, "post"), AES: rapid.Bool().Draw(t, "aes")}
		viol := runDec(c)
		recDec(c, viol)
		ev.Sample("decode", c)
		if viol != "" {
			js, _ := json.Marshal(c)
			t.Fatalf("C08 violated: %s\ncase: %s", viol, js)
		}
	})
}

// TestC08Huge: an ad with one string attribute around and above the 1 MiB frame limit, followed by further
// attributes and the type names, through every sender, plain and encrypted; all three receivers.
func TestC08Huge(t *testing.T) {
	const MiB = 1 << 20
	bad := 0
	n := 0
	for _, sz := range []int{MiB - 40, MiB - 9, MiB - 8, MiB - 1, MiB, MiB + 1, MiB + 10, MiB + 4097, 2*MiB + 3} {
		for sender := 0; sender < 4; sender++ {
			for _, aes := range []bool{false, true} {
				n++
				if !kit.Thorough() && (n+sender)%3 != 0 {
					continue
				}
				c := EncCase{AES: aes, Sender: sender, Huge: sz, MyType: "Machine", TgtType: []string{"", "Job"}[n%2], Recut: n * 7919,
					Attrs: []Attr{{Name: "Alpha", Text: "1"}, {Name: "Zeta", Text: `"tail"`}, {Name: "Omega", Text: "Alpha + 2"}}}
				v, st := runEnc(c)
				ev.Case(fmt.Sprintf("huge/sender%d/aes=%v", sender, aes), fmt.Sprintf("huge:%d:%d:%v", sz, sender, aes))
				ev.Count("attributes_compared", int64(st.compared))
				if v != "" && bad < 4 {
					bad++
					kit.Violation("C08", v, c)
					t.Errorf("C08 violated: %s", v)
				}
			}
		}
	}
	ev.Exhaustive("an ad with one string attribute of 9 sizes around and above the 1 MiB frame limit x 4 senders x {plain, AES} (quick: a third of the product)")
}

func TestC08Replay(t *testing.T) {
	var raw json.RawMessage
	ok, err := kit.ReplayCase(&raw)
	if !ok {
		for _, c := range regressDec {
			if v := runDec(c); v != "" {
				kit.Violation("C08", v, c)
				t.Errorf("C08 violated: %s", v)
			}
			recDec(c, "")
		}
		return
	}
	if err != nil {
		t.Fatal(err)
	}
	var d DecCase
	if json.Unmarshal(raw, &d) == nil && d.V != "" {
		if v := runDec(d); v != "" {
			t.Fatalf("C08 violated: %s", v)
		}
		return
	}
	var e EncCase
	if err := json.Unmarshal(raw, &e); err != nil {
		t.Fatal(err)
	}
	if v, _ := runEnc(e); v != "" {
		t.Fatalf("C08 violated: %s", v)
	}
}

var regressDec = []DecCase{
	{V: `"a" + "b"`, Pre: " ", Mid: " "},
	{V: `"a"+"b"`, Pre: "", Mid: ""},
	{V: `"x" == "y"`, Pre: " ", Mid: " ", AES: true},
	// integers at and beyond the ends of the 64-bit range, very long digit runs, reals beyond the double range
	{V: "9223372036854775807", Pre: " ", Mid: " "}, {V: "9223372036854775808", Pre: " ", Mid: " "}, {V: "-9223372036854775808", Pre: " ", Mid: " ", AES: true},
	{V: "-9223372036854775809", Pre: " ", Mid: " "}, {V: "18446744073709551615", Pre: " ", Mid: " ", AES: true}, {V: "123456789012345678901234567890", Pre: " ", Mid: " "},
	{V: "99999999999999999999", Pre: "", Mid: "", Post: " "}, {V: "1e400", Pre: " ", Mid: " "}, {V: "-1e400", Pre: " ", Mid: " "}, {V: "0.000000000000000000000000000000000001", Pre: " ", Mid: " "},
	{V: "9223372036854775807.0", Pre: " ", Mid: " "}, {V: "09223372036854775808", Pre: " ", Mid: " "},
}

// FuzzC08ValueText: coverage-guided search over value texts (thorough tier).
func FuzzC08ValueText(f *testing.F) {
	for _, s := range []string{`"a" + "b"`, "010", "5.", "1_0.5", "0x1.8p1", "true", "-5", `"\S"`, "1e5", "TRUE ", `"a\"b"`, "3.0E-5", "--1", "1.5e", `""`} {
		f.Add(s, false)
	}
	f.Fuzz(func(t *testing.T, v string, aes bool) {
		if len(v) > 64 || strings.ContainsAny(v, "\x00\n") || !utf8.ValidString(v) { // the wire carries valid UTF-8 text
			return
		}
		c := DecCase{V: v, Pre: " ", Mid: " ", AES: aes}
		if viol := runDec(c); viol != "" {
			t.Fatalf("C08 violated: %s", viol)
		}
	})
}
