package c04

import (
	"encoding/json"
	"fmt"
	"testing"

	"github.com/bbockelm/cedar/message"
	"github.com/bbockelm/cedar/stream"

	"verifharness/kit"
)

// LCase: stream-level binding sweep. One cleartext message travels X->Y as frames of the given payload
// lengths, a relay replaces one payload byte of one frame, both ends install the same key, and each then
// sends one protected message. The handshake shapes of TestC04Tamper only contain the frame lengths real
// handshakes happen to produce; this sweep walks every cleartext frame length and every offset in it.
type LCase struct {
	Dir   int   `json:"dir"`   // 0: the cleartext message goes A->B, 1: B->A
	Lens  []int `json:"lens"`  // payload length of each cleartext frame (all but the last partial)
	Frame int   `json:"frame"` // frame whose payload is edited (-1: control, nothing edited)
	Off   int   `json:"off"`   // payload offset of the edited byte
	Recv  int   `json:"recv"`  // how the cleartext is received: 0 ReceiveCompleteMessage, 1 ReceiveFrameWithEnd, 2 Message.GetBytes
	Both  bool  `json:"both"`  // an (unedited) cleartext message also travels the other way first
}

func runLCase(c LCase) string {
	ca, cb := kit.NewMemConn(), kit.NewMemConn()
	A, B := stream.NewStream(ca), stream.NewStream(cb)
	X, Y, cx, cy := A, B, ca, cb
	if c.Dir == 1 {
		X, Y, cx, cy = B, A, cb, ca
	}
	if c.Both {
		if err := Y.SendMessage(kit.Bg, kit.Pattern(23, 77)); err != nil {
			return "harness: " + err.Error()
		}
		cx.Feed(cy.TakeOut())
		if _, err := X.ReceiveCompleteMessage(kit.Bg); err != nil {
			return "harness: " + err.Error()
		}
	}
	total := 0
	for i, n := range c.Lens {
		pl := kit.Pattern(n, uint32(1000+i))
		total += n
		var err error
		if i < len(c.Lens)-1 {
			err = X.SendPartialMessage(kit.Bg, pl)
		} else {
			err = X.SendMessage(kit.Bg, pl)
		}
		if err != nil {
			return "harness: cleartext send: " + err.Error()
		}
	}
	wire := cx.TakeOut()
	frames, rest := kit.ParseFrames(wire)
	if len(rest) != 0 || len(frames) != len(c.Lens) {
		return fmt.Sprintf("harness: %d cleartext frames on the wire for %d sends", len(frames), len(c.Lens))
	}
	if c.Frame >= 0 {
		// locate the byte: frames are header(5)+payload, back to back
		pos := 0
		for i := 0; i < c.Frame; i++ {
			pos += 5 + c.Lens[i]
		}
		pos += 5 + c.Off
		wire = append([]byte(nil), wire...)
		wire[pos] ^= 0x01
	}
	cy.Feed(wire)
	got := 0
	switch c.Recv {
	case 0:
		m, err := Y.ReceiveCompleteMessage(kit.Bg)
		if err != nil {
			return "cleartext message not received: " + err.Error()
		}
		got = len(m)
	case 1:
		for {
			d, end, err := Y.ReceiveFrameWithEnd(kit.Bg)
			if err != nil {
				return "cleartext frame not received: " + err.Error()
			}
			got += len(d)
			if end != 0 {
				break
			}
		}
	case 2:
		msg := message.NewMessageFromStream(Y)
		for got < total {
			k := total - got
			if k > 37 {
				k = 37
			}
			b, err := msg.GetBytes(kit.Bg, k)
			if err != nil {
				return "cleartext bytes not received: " + err.Error()
			}
			got += len(b)
		}
		if total == 0 {
			if _, err := msg.GetChar(kit.Bg); err == nil {
				return "harness: empty message had a byte"
			}
		}
	}
	if got != total {
		return fmt.Sprintf("harness: cleartext message of %d bytes arrived as %d", total, got)
	}
	key := kit.Pattern(32, 4242)
	if err := A.SetSymmetricKey(key); err != nil {
		return "harness: " + err.Error()
	}
	if err := B.SetSymmetricKey(key); err != nil {
		return "harness: " + err.Error()
	}
	// first protected message in each direction
	accepted := 0
	var errs [2]error
	for d, p := range [][2]*stream.Stream{{A, B}, {B, A}} {
		sc, rc := ca, cb
		if d == 1 {
			sc, rc = cb, ca
		}
		if err := p[0].SendMessage(kit.Bg, []byte("application data")); err != nil {
			return "harness: protected send: " + err.Error()
		}
		rc.Feed(sc.TakeOut())
		m, err := p[1].ReceiveCompleteMessage(kit.Bg)
		errs[d] = err
		if err == nil {
			accepted++
			if string(m) != "application data" {
				return fmt.Sprintf("protected message arrived altered: %q", m)
			}
		}
	}
	if c.Frame < 0 {
		if accepted != 2 {
			return fmt.Sprintf("control (nothing edited): protected messages rejected: %v / %v", errs[0], errs[1])
		}
		return ""
	}
	if accepted != 0 {
		return fmt.Sprintf("a cleartext frame of %d payload bytes was altered at payload offset %d in transit, yet %d of the 2 first protected messages were accepted", c.Lens[c.Frame], c.Off, accepted)
	}
	return ""
}

// TestC04Lengths walks cleartext frame lengths: every length 0..N with every payload offset, plus lengths around
// the hash block, buffer and frame-size boundaries with the offsets near both ends.
func TestC04Lengths(t *testing.T) {
	maxAll := kit.Scale(150, 400)
	var cases []LCase
	add := func(lens []int, frame int, offs []int) {
		for _, off := range offs {
			if off < 0 || off >= lens[frame] {
				continue
			}
			n := len(cases)
			cases = append(cases, LCase{Dir: n % 2, Lens: lens, Frame: frame, Off: off, Recv: (n / 2) % 3, Both: (n/6)%2 == 1})
		}
	}
	for L := 0; L <= maxAll; L++ {
		cases = append(cases, LCase{Dir: L % 2, Lens: []int{L}, Frame: -1, Recv: L % 3, Both: L%4 >= 2})
		all := make([]int, L)
		for i := range all {
			all[i] = i
		}
		add([]int{L}, 0, all)
	}
	ends := func(L int) []int {
		var o []int
		for i := 0; i < 70; i++ {
			o = append(o, i, L-1-i)
		}
		return append(o, L/2, L/3)
	}
	for _, L := range []int{255, 256, 257, 511, 512, 513, 1000, 1023, 1024, 1025, 4091, 4095, 4096, 4097, 8192, 65535, 65536, 65537, 1<<20 - 1, 1 << 20} {
		if !kit.Thorough() && L > 70000 {
			continue
		}
		add([]int{L}, 0, ends(L))
	}
	// two-frame messages: the edit in the first or the second frame
	for _, a := range []int{0, 1, 5, 59, 60, 64, 65, 123} {
		for _, b := range []int{0, 1, 54, 55, 59, 61, 64, 119, 128} {
			if a > 0 {
				add([]int{a, b}, 0, []int{0, a / 2, a - 1, a - 2, a - 5})
			}
			if b > 0 {
				add([]int{a, b}, 1, []int{0, b / 2, b - 1, b - 2, b - 5})
			}
		}
	}
	bad := 0
	for i, c := range cases {
		if i%kit.NShards() != kit.Shard() {
			continue
		}
		v := runLCase(c)
		k := ""
		class := "lengths/control"
		if c.Frame >= 0 {
			class = "lengths/edited"
			b, _ := json.Marshal(c)
			k = string(b)
		}
		ev.Case(class, k)
		if v != "" {
			if bad < 6 {
				kit.Violation("C04", v, map[string]any{"lengths": c})
				t.Errorf("C04 violated: %s (case %+v)", v, c)
			}
			bad++
		}
	}
	ev.Exhaustive(fmt.Sprintf("stream-level sweep: every cleartext frame length 0..%d x every payload offset, boundary lengths up to the frame limit x 142 offsets near both ends, two-frame messages; 3 receive paths, both directions", maxAll))
}
