// Package c04 decides property C04: the cleartext handshake is bound into the
// secure channel -- any tampering with it makes the first protected frame fail.
package c04

import (
	"bytes"
	"strings"
	"context"
	"encoding/binary"
	"encoding/json"
	"fmt"
	"io"
	"sync"
	"sync/atomic"
	"testing"
	"time"

	"github.com/bbockelm/cedar/security"
	"github.com/bbockelm/cedar/stream"

	"verifharness/kit"
)

func TestMain(m *testing.M) { kit.Main(m) }

var ev = kit.Ev("C04")

func init() {
	ev.Rule("two real endpoints (client and server Authenticator, both with encryption REQUIRED) talk through a frame-aware man-in-the-middle relay; handshake shapes: no authentication, CLAIMTOBE, TOKEN, FS, resumed session, CLAIMTOBE with encryption only OPTIONAL / PREFERRED (it still ends on); " +
		"a baseline run records the cleartext frames per direction; mutations addressed as (direction, frame index, byte offset incl. header, substitute in {^0x01, ^0x80, 0x00, 'A'}) for EVERY offset of every cleartext frame, the end-flag byte of every frame additionally set to 9 (thorough: all 256) values and every length byte moved by +-1, " +
		"plus an empty partial frame inserted before every frame, every frame removed, every frame split in two, adjacent partial frames merged, a non-empty partial frame (an altered copy of the frame's own payload) inserted before a frame, and the same attribute of the negotiation ad rewritten (one value character, same length) in BOTH directions; oracle: after the handshake calls return, every endpoint that reported success sends " +
		"one application message and tries to read one -- no endpoint that reported success may ACCEPT an application message in a run where the relay changed a byte; the unmodified run must succeed and exchange messages both ways; " +
		"non-trivial = the mutation really changed bytes of a frame both endpoints got far enough to exchange; distinct by (shape, direction, frame, offset, substitute)")
	ev.Assume("a run that blocks (both ends waiting for bytes the relay's edit removed) is ended by an idle watchdog and counted inconclusive, never a violation")
}

type Mut struct {
	Kind  string `json:"kind"` // "none", "byte", "insert-empty", "remove", "split", "merge"
	Dir   int    `json:"dir"`  // 0 client->server, 1 server->client
	Frame int    `json:"frame"`
	Off   int    `json:"off"`
	Sub   int    `json:"sub"` // 0 ^0x01, 1 ^0x80, 2 0x00, 3 'A', 4 +1, 5 -1, 100+v: set to v
}

type Case struct {
	Shape string `json:"shape"`
	M     Mut    `json:"mut"`
}

var tokenEnv = kit.NewTokenEnv()

type relayStats struct {
	frames  [2]int
	lens    [2][]int
	changed bool
	last    int64 // unix nano of last activity
}

func readFrame(r io.Reader) ([]byte, error) {
	hdr := make([]byte, 5)
	if _, err := io.ReadFull(r, hdr); err != nil {
		return nil, err
	}
	n := int(binary.BigEndian.Uint32(hdr[1:5]))
	if n > 1<<21 {
		return nil, fmt.Errorf("relay: absurd frame length")
	}
	body := make([]byte, n)
	if _, err := io.ReadFull(r, body); err != nil {
		return nil, err
	}
	return append(hdr, body...), nil
}

// relay forwards frames from src to dst applying mutation m when it addresses this direction.
func relay(dir int, src, dst *kit.BufConn, m Mut, rs *relayStats, mu *sync.Mutex) {
	idx := 0
	var held []byte // for merge: the previous partial frame held back
	for {
		f, err := readFrame(src)
		if err != nil {
			_ = dst.Close()
			return
		}
		atomic.StoreInt64(&rs.last, time.Now().UnixNano())
		mu.Lock()
		rs.frames[dir]++
		rs.lens[dir] = append(rs.lens[dir], len(f))
		mu.Unlock()
		out := [][]byte{f}
		if m.Kind == "both-attr" && idx == 0 {
			// the same attribute of the negotiation ad rewritten in BOTH directions (first frame each way): one
			// character of its value, same length (a digit becomes 0, a letter Z). Two edits that agree with each
			// other are what a relay steering both ends towards a common belief would make.
			pat := []byte(bothAttrs[m.Frame%len(bothAttrs)] + " = ")
			p := bytes.Index(f, append([]byte{0}, pat...))
			if p >= 0 {
				p++
			} else if len(f) > 13 && bytes.HasPrefix(f[13:], pat) {
				p = 13
			}
			if p >= 0 {
				v := p + len(pat)
				if v < len(f) && f[v] == '"' {
					v++
				}
				end := v
				for end < len(f) && f[end] != 0 {
					end++
				}
				if q := v + m.Off; q < end {
					nf := append([]byte(nil), f...)
					switch c := nf[q]; {
					case c >= '1' && c <= '9':
						nf[q] = '0'
					case c == '0':
						nf[q] = '1'
					case c == 'Z' || c == 'z':
						nf[q] = 'Y'
					case (c >= 'A' && c <= 'Z') || (c >= 'a' && c <= 'z'):
						nf[q] = 'Z'
					}
					if nf[q] != f[q] {
						mu.Lock()
						rs.changed = true
						mu.Unlock()
						out = [][]byte{nf}
					}
				}
			}
		} else if m.Dir == dir && m.Frame == idx {
			switch m.Kind {
			case "byte":
				if m.Off < len(f) {
					nf := append([]byte(nil), f...)
					old := nf[m.Off]
					switch m.Sub {
					case 0:
						nf[m.Off] ^= 0x01
					case 1:
						nf[m.Off] ^= 0x80
					case 2:
						nf[m.Off] = 0x00
					case 3:
						nf[m.Off] = 'A'
					case 4:
						nf[m.Off]++
					case 5:
						nf[m.Off]--
					default: // 100+v: set to v
						if m.Sub >= 100 {
							nf[m.Off] = byte(m.Sub - 100)
						}
					}
					if nf[m.Off] != old {
						mu.Lock()
						rs.changed = true
						mu.Unlock()
					}
					out = [][]byte{nf}
				}
			case "insert-copy":
				// a NON-EMPTY partial frame in front of the untouched frame: a copy of the frame's own payload minus
				// its last byte, with one character changed (digit -> 0, letter -> Z). The reader concatenates both, so
				// it may well parse the altered copy and ignore the rest; the sender sent only the original.
				if body := f[5:]; len(body) >= 2 && m.Off < len(body)-1 {
					cp := append([]byte(nil), body[:len(body)-1]...)
					switch c := cp[m.Off]; {
					case c >= '1' && c <= '9':
						cp[m.Off] = '0'
					case c == '0':
						cp[m.Off] = '1'
					case c == 'Z' || c == 'z':
						cp[m.Off] = 'Y'
					case (c >= 'A' && c <= 'Z') || (c >= 'a' && c <= 'z'):
						cp[m.Off] = 'Z'
					default:
						cp[m.Off] ^= 0x01
					}
					out = [][]byte{kit.BuildFrame(0, cp), f}
					mu.Lock()
					rs.changed = true
					mu.Unlock()
				}
			case "insert-empty":
				out = [][]byte{{0, 0, 0, 0, 0}, f}
				mu.Lock()
				rs.changed = true
				mu.Unlock()
			case "remove":
				out = nil
				mu.Lock()
				rs.changed = true
				mu.Unlock()
			case "split":
				body := f[5:]
				if len(body) >= 2 {
					h := len(body) / 2
					out = [][]byte{kit.BuildFrame(0, body[:h]), kit.BuildFrame(f[0], body[h:])}
					mu.Lock()
					rs.changed = true
					mu.Unlock()
				}
			case "merge":
				if f[0] == 0 { // a partial frame: hold it and merge with the next
					held = f
					out = nil
				}
			}
		} else if held != nil && m.Dir == dir && m.Frame+1 == idx {
			merged := kit.BuildFrame(f[0], append(append([]byte(nil), held[5:]...), f[5:]...))
			held = nil
			out = [][]byte{merged}
			mu.Lock()
			rs.changed = true
			mu.Unlock()
		}
		idx++
		for _, o := range out {
			if _, err := dst.Write(o); err != nil {
				return
			}
		}
	}
}

// attributes of the negotiation ads (most occur in both directions)
var bothAttrs = []string{"RemoteVersion", "AuthMethods", "CryptoMethods", "Authentication", "Encryption", "Integrity", "Enact", "OutgoingNegotiation",
	"NewSession", "ECDHPublicKey", "TrustDomain", "Command", "SessionDuration", "SessionLease", "AuthMethodsList", "CryptoMethodsList", "NegotiatedSession", "AuthCommand", "ServerPid", "Subsystem"}

type outcome struct {
	cOK, sOK         bool
	cAccept, sAccept bool
	cErr, sErr       error
	cEnc, sEnc       bool // the endpoint's stream was encrypting when its handshake returned success
	changed          bool
	frames           [2]int
	lens             [2][]int
	idle             bool
}

type shapeEnv struct {
	ccfg, scfg *security.SecurityConfig
}

func mkShape(shape string) shapeEnv {
	var e shapeEnv
	switch shape {
	case "noauth":
		e.ccfg = kit.BaseConfig(security.SecurityNever, security.SecurityRequired, security.AuthClaimToBe)
		e.scfg = kit.BaseConfig(security.SecurityOptional, security.SecurityRequired, security.AuthClaimToBe)
	case "claimtobe", "resumed", "resumed-noreply":
		e.ccfg = kit.BaseConfig(security.SecurityRequired, security.SecurityRequired, security.AuthClaimToBe)
		e.scfg = kit.BaseConfig(security.SecurityRequired, security.SecurityRequired, security.AuthClaimToBe)
	case "claimtobe-optenc", "claimtobe-prefenc":
		// nobody REQUIRES encryption, yet the handshake ends with it on (both offer a key): the statement is about
		// every handshake that ends encrypted, whatever level asked for it
		lvl := security.SecurityOptional
		if shape == "claimtobe-prefenc" {
			lvl = security.SecurityPreferred
		}
		e.ccfg = kit.BaseConfig(security.SecurityRequired, lvl, security.AuthClaimToBe)
		e.scfg = kit.BaseConfig(security.SecurityRequired, security.SecurityOptional, security.AuthClaimToBe)
	case "fs":
		e.ccfg = kit.BaseConfig(security.SecurityRequired, security.SecurityRequired, security.AuthFS)
		e.scfg = kit.BaseConfig(security.SecurityRequired, security.SecurityRequired, security.AuthFS)
	case "token":
		e.ccfg = kit.BaseConfig(security.SecurityRequired, security.SecurityRequired, security.AuthToken)
		e.scfg = kit.BaseConfig(security.SecurityRequired, security.SecurityRequired, security.AuthToken)
		tokenEnv.Apply(e.ccfg, e.scfg)
	}
	e.scfg.SessionCache = nil
	e.ccfg.PeerName = "<mitm-target>"
	return e
}

func runCase(c Case) outcome {
	e := mkShape(c.Shape)
	var resumeSid string
	var resumeKey []byte
	if c.Shape == "resumed" || c.Shape == "resumed-noreply" {
		// establish the session over an untouched connection first
		r := kit.Handshake(e.ccfg, e.scfg, 5*time.Second)
		if r.CErr != nil || r.SErr != nil {
			return outcome{cErr: fmt.Errorf("establishing the session to resume failed: %v / %v", r.CErr, r.SErr)}
		}
		_ = r.CConn.Close()
		_ = r.SConn.Close()
		resumeSid = r.SNeg.SessionId
		if en, ok := security.GetSessionCache().Lookup(resumeSid); ok && en.KeyInfo() != nil {
			resumeKey = append([]byte(nil), en.KeyInfo().Data...)
		}
	}
	pa, pb := kit.NextPorts()
	cc, rc := kit.NewBufPipe(pa, pb)     // client <-> relay
	rsv, sc := kit.NewBufPipe(pa+1, pb) // relay <-> server
	rs := &relayStats{last: time.Now().UnixNano()}
	var mu sync.Mutex
	go relay(0, rc, rsv, c.M, rs, &mu)
	go relay(1, rsv, rc, c.M, rs, &mu)
	ctx, cancel := context.WithTimeout(context.Background(), 3*time.Second)
	defer cancel()
	var o outcome
	var wg sync.WaitGroup
	wg.Add(2)
	var handshakesDone int32
	// Each side sends three application messages and then keeps reading, also past a rejected frame (a
	// lenient request loop): NOTHING may be accepted over a channel whose negotiation was tampered with,
	// not the first protected frame and not a later one either.
	app := func(st *stream.Stream, who string) bool {
		for i := 0; i < 3; i++ {
			if err := st.SendMessage(ctx, []byte(fmt.Sprintf("APPLICATION-DATA-from-%s-%d", who, i))); err != nil {
				return false
			}
		}
		accepted := false
		for i := 0; i < 3; i++ {
			if _, err := st.ReceiveCompleteMessage(ctx); err == nil {
				accepted = true
			}
		}
		return accepted
	}
	go func() {
		defer wg.Done()
		st := stream.NewStream(cc)
		var err error
		if c.Shape == "resumed-noreply" {
			// the HTCondor-style resumption: the requester asks for no reply, so the only cleartext of this
			// connection is its own request (one direction), and it starts protecting at once
			plog, pst := kit.ScriptedClient(cc, kit.PeerOpts{ResumeSid: resumeSid, ResumeKey: resumeKey, ResumeResponse: false, Command: 60011}, 3*time.Second)
			err, st = plog.Err, pst
			if err == nil && resumeKey == nil {
				err = fmt.Errorf("no key for the session to resume")
			}
		} else {
			_, err = security.NewAuthenticator(e.ccfg, st).ClientHandshake(ctx)
		}
		o.cErr = err
		if err != nil {
			_ = cc.Close()
			atomic.AddInt32(&handshakesDone, 1)
			return
		}
		o.cOK, o.cEnc = true, st.IsEncrypted()
		atomic.AddInt32(&handshakesDone, 1)
		o.cAccept = app(st, "client")
	}()
	go func() {
		defer wg.Done()
		st := stream.NewStream(sc)
		_, err := security.NewAuthenticator(e.scfg, st).ServerHandshake(ctx)
		o.sErr = err
		if err != nil {
			_ = sc.Close()
			atomic.AddInt32(&handshakesDone, 1)
			return
		}
		o.sOK, o.sEnc = true, st.IsEncrypted()
		atomic.AddInt32(&handshakesDone, 1)
		o.sAccept = app(st, "server")
	}()
	// idle watchdog: nothing moved for a while and the calls have not returned => blocked exchange
	done := make(chan struct{})
	go func() { wg.Wait(); close(done) }()
	tick := time.NewTicker(25 * time.Millisecond)
	defer tick.Stop()
	idleLimit := 250 * time.Millisecond
	if c.M.Kind == "none" {
		// an unmodified exchange never blocks: a pause is the machine being busy (FS authentication touches the
		// disk), so it gets the whole time limit
		idleLimit = 2900 * time.Millisecond
	}
loop:
	for {
		select {
		case <-done:
			break loop
		case <-tick.C:
			if time.Since(time.Unix(0, atomic.LoadInt64(&rs.last))) > idleLimit {
				o.idle = true
				cancel()
				_ = cc.Close()
				_ = sc.Close()
				<-done
				break loop
			}
		}
	}
	_ = cc.Close()
	_ = sc.Close()
	mu.Lock()
	o.changed, o.frames, o.lens = rs.changed, rs.frames, rs.lens
	mu.Unlock()
	return o
}

func judge(c Case, o outcome) string {
	if c.M.Kind == "none" {
		if o.cOK && o.sOK && (!o.cEnc || !o.sEnc) {
			return fmt.Sprintf("the UNMODIFIED %s handshake did not end with encryption on (client %v server %v): the shape does not exercise the statement", c.Shape, o.cEnc, o.sEnc)
		}
		if !o.cOK || !o.sOK || !o.cAccept || !o.sAccept {
			return fmt.Sprintf("the UNMODIFIED %s handshake did not end with both sides exchanging messages (client ok=%v accept=%v err=%v; server ok=%v accept=%v err=%v)",
				c.Shape, o.cOK, o.cAccept, o.cErr, o.sOK, o.sAccept, o.sErr)
		}
		return ""
	}
	if !o.changed {
		return ""
	}
	// (the statement is about handshakes that END WITH ENCRYPTION ON: where nobody requires encryption a relay can
	// always talk an endpoint into a cleartext session - that endpoint then has no protected frame to check, and what
	// it reads is not covered here)
	if o.cOK && o.cEnc && o.cAccept {
		return fmt.Sprintf("the client reported a successful handshake and ACCEPTED an application message although the relay modified the cleartext handshake (%+v)", c.M)
	}
	if o.sOK && o.sEnc && o.sAccept {
		return fmt.Sprintf("the server reported a successful handshake and ACCEPTED an application message although the relay modified the cleartext handshake (%+v)", c.M)
	}
	return ""
}

var shapes = []string{"noauth", "claimtobe", "resumed", "resumed-noreply", "fs", "token", "claimtobe-optenc", "claimtobe-prefenc"}

func TestC04Tamper(t *testing.T) {
	var cases []Case
	baseLens := map[string][2][]int{}
	for _, sh := range shapes {
		c := Case{Shape: sh, M: Mut{Kind: "none"}}
		var o outcome
		for try := 0; try < 5; try++ {
			o = runCase(c)
			if judge(c, o) == "" {
				break
			}
		}
		ev.Case("baseline:"+sh, "")
		timedOut := func(err error) bool {
			return err != nil && (strings.Contains(err.Error(), "context canceled") || strings.Contains(err.Error(), "deadline exceeded"))
		}
		if v := judge(c, o); v != "" && (o.idle || timedOut(o.cErr) || timedOut(o.sErr)) {
			// five unmodified runs in a row ran into the harness's own time limit: the machine is too busy to say anything
			t.Fatalf("C04 harness: inconclusive, the unmodified %s handshake timed out five times: %s", sh, v)
		}
		if v := judge(c, o); v != "" {
			kit.Violation("C04", v, c)
			t.Fatalf("C04 violated: %s", v)
		}
		// cleartext frames: all but the protected tail. The server's last handshake frame (post-auth ad)
		// and the two application messages are protected; the resumed shape has no post-auth ad.
		lens := o.lens
		nc := len(lens[0]) - 3 // minus the client's three application messages
		ns := len(lens[1]) - 4 // minus post-auth ad and the server's three application messages
		if sh == "resumed" || sh == "resumed-noreply" {
			ns = len(lens[1]) - 3
		}
		baseLens[sh] = [2][]int{lens[0][:nc], lens[1][:ns]}
		ev.Sample("baseline", map[string]any{"shape": sh, "cleartext_frame_lengths_client_to_server": lens[0][:nc], "server_to_client": lens[1][:ns]})
		subs := []int{0}
		stride := 1
		if kit.Thorough() {
			subs = []int{0, 1, 2, 3}
		} else if sh == "fs" || sh == "token" || sh == "claimtobe" || sh == "claimtobe-optenc" || sh == "claimtobe-prefenc" {
			stride = 3
			subs = []int{0, 3}
		}
		for dir := 0; dir < 2; dir++ {
			for fi, fl := range baseLens[sh][dir] {
				for off := 0; off < fl; off++ {
					if off >= 5 && (off+fi)%stride != 0 {
						continue
					}
					for _, sb := range subs {
						cases = append(cases, Case{Shape: sh, M: Mut{Kind: "byte", Dir: dir, Frame: fi, Off: off, Sub: sb}})
					}
					if off == 0 { // the end-of-message flag: every value a receiver might take for "end" or "more"
						vals := []int{0, 2, 3, 5, 9, 10, 11, 0x7f, 0xff}
						if kit.Thorough() {
							vals = vals[:0]
							for v := 0; v < 256; v++ {
								vals = append(vals, v)
							}
						}
						for _, v := range vals {
							cases = append(cases, Case{Shape: sh, M: Mut{Kind: "byte", Dir: dir, Frame: fi, Off: 0, Sub: 100 + v}})
						}
					} else if off < 5 { // the length field: off by one either way
						cases = append(cases, Case{Shape: sh, M: Mut{Kind: "byte", Dir: dir, Frame: fi, Off: off, Sub: 4}},
							Case{Shape: sh, M: Mut{Kind: "byte", Dir: dir, Frame: fi, Off: off, Sub: 5}})
					}
				}
				for _, k := range []string{"insert-empty", "remove", "split", "merge"} {
					cases = append(cases, Case{Shape: sh, M: Mut{Kind: k, Dir: dir, Frame: fi}})
				}
				if sh == "noauth" || sh == "claimtobe" || sh == "token" {
					step := 7
					if kit.Thorough() {
						step = 2
					}
					for off := fi % step; off < fl-6; off += step {
						cases = append(cases, Case{Shape: sh, M: Mut{Kind: "insert-copy", Dir: dir, Frame: fi, Off: off}})
					}
				}
			}
			// (a frame injected after the last cleartext frame lands in the protected phase of that
			// direction only; that is C02's fault model, not a change to the negotiation)
		}
	}
	for _, sh := range []string{"noauth", "claimtobe", "token", "claimtobe-optenc"} {
		for ai := range bothAttrs {
			for off := 0; off < 44; off++ {
				if !kit.Thorough() && (off+ai)%2 != 0 && off != 16 && off != 17 {
					continue
				}
				cases = append(cases, Case{Shape: sh, M: Mut{Kind: "both-attr", Frame: ai, Off: off}})
			}
		}
	}
	var mu sync.Mutex
	bad := 0
	sem := make(chan struct{}, 14)
	var wg sync.WaitGroup
	for i, c := range cases {
		if i%kit.NShards() != kit.Shard() {
			continue
		}
		wg.Add(1)
		sem <- struct{}{}
		go func(c Case) {
			defer wg.Done()
			defer func() { <-sem }()
			o := runCase(c)
			v := judge(c, o)
			class := c.Shape + "/" + c.M.Kind
			k := ""
			if o.changed {
				b, _ := json.Marshal(c)
				k = string(b)
			}
			ev.Case(class, k)
			if o.idle {
				ev.Class("ended-by-idle-watchdog(inconclusive)")
			}
			if o.cOK || o.sOK {
				ev.Class("an-endpoint-reported-success-and-then-rejected-the-first-protected-frame")
			}
			if v != "" {
				mu.Lock()
				if bad < 6 {
					kit.Violation("C04", v, c)
					t.Errorf("C04 violated: %s", v)
				}
				bad++
				mu.Unlock()
			}
		}(c)
	}
	wg.Wait()
	if kit.Thorough() {
		ev.Exhaustive("every byte offset of every cleartext handshake frame x 4 substitutes + 4 structural edits per frame, for 6 handshake shapes (incl. a resumption that asks for no reply: cleartext in one direction only)")
	} else {
		ev.Exhaustive("every byte offset (one substitute) of the no-authentication and resumed shapes and every header byte of all shapes; every third payload offset (two substitutes) of CLAIMTOBE, FS, TOKEN; 4 structural edits per frame")
	}
}

func TestC04Replay(t *testing.T) {
	var rc struct {
		Case
		Lengths *LCase `json:"lengths"`
	}
	ok, err := kit.ReplayCase(&rc)
	if !ok {
		t.Skip("no VERIF_REPLAY")
	}
	if err != nil {
		t.Fatal(err)
	}
	if rc.Lengths != nil {
		if v := runLCase(*rc.Lengths); v != "" {
			t.Fatalf("C04 violated: %s", v)
		}
		return
	}
	c := rc.Case
	if v := judge(c, runCase(c)); v != "" {
		t.Fatalf("C04 violated: %s", v)
	}
}
