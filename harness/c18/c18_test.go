// Package c18 decides property C18: filesystem authentication cannot be
// steered outside its directory.
package c18

import (
	"context"
	"encoding/json"
	"fmt"
	"net"
	"os"
	"os/user"
	"path/filepath"
	"regexp"
	"sort"
	"strconv"
	"strings"
	"sync"
	"sync/atomic"
	"syscall"
	"testing"
	"time"

	"github.com/bbockelm/cedar/security"
	"github.com/bbockelm/cedar/stream"
	"pgregory.net/rapid"

	"verifharness/kit"
)

func TestMain(m *testing.M) {
	setup()
	kit.AtExit(func() {
		_ = os.Remove(tmpLink)
		_ = os.RemoveAll(sandbox)
	})
	kit.Main(m)
}

var ev = kit.Ev("C18")

func init() {
	ev.Rule("client side: the real client (FS the only method) against a scripted server that announces a generated path: base in {/tmp, /tmp/, //tmp, /tmp/., /var/tmp, harness sandbox dirs, a symlink to /tmp, a symlink inside /tmp, relative, empty} x " +
		"separators {/, //, /./, /../, /x/../} x leaf in recognised shapes (FS_<1-16 alnum>, FS_<ip>_<port>_<suffix> with IPv4/IPv6/hostname, matching and non-matching ports, leading zeros, IPv4-mapped) and near misses " +
		"(FS_, FS-x, fs_x, XS_x, FS_x.y, FS_x/y, FS_REMOTE_..., 17+ character suffix, control / non-ASCII bytes, 4-5 KiB fields, empty) plus byte mutations of accepted paths; the server then answers 0, -1 or closes; " +
		"oracle: a filesystem-effect observer snapshots every candidate target (raw path, Clean, relative to cwd, /tmp/<leaf>, symlink-resolved, each sandbox dir, all tagged names in /tmp) before, at the moment the client reports its result, and after; " +
		"a three-valued reference validator decides must-accept / must-reject / either: must-reject => nothing created at any instant and a non-zero result reported; always <= 1 directory, exactly /tmp/<leaf>, mode 0700, gone afterwards. " +
		"server side: the real server against a scripted client leaving nothing / a file / a FIFO / a socket / a device node / a symlink / directories with modes 0700..0000 / a directory owned by nobody / with subdirectories, answering 0 or -1: " +
		"success <=> result 0 and a real 0700 directory; identity = owner; path removed; non-trivial = path not of a must-accept form, or an object other than the honest directory; distinct by path / object")
}

var (
	tag      string // unique per process, alphanumeric
	sandbox  string
	sbInner  string
	sbLink   string // sandbox/lnk -> /tmp
	tmpLink  string // /tmp/vl<tag> -> sandbox/inner
	counter  int64
	peerIP   = "127.0.0.1"
	peerPort = "9618"
)

func setup() {
	// the tag marks this PROCESS's names in /tmp (shards run side by side). It starts and ends with an upper-case
	// letter, which the base-36 digits between them never are, so no process's tag occurs inside another's names
	// (with "v"+pid a process whose pid reads "j0x" matched every name of the process whose pid reads "j0":
	// "vj0" + "x" + counter - the cause of two "directory appeared out of nowhere" reports under load)
	tag = "V" + strconv.FormatInt(int64(os.Getpid()), 36) + "Q"
	d, err := os.MkdirTemp("", "c18sb")
	if err != nil {
		panic(err)
	}
	sandbox = d
	sbInner = filepath.Join(d, "inner")
	_ = os.Mkdir(sbInner, 0o755)
	sbLink = filepath.Join(d, "lnk")
	_ = os.Symlink("/tmp", sbLink)
	tmpLink = "/tmp/vl" + tag
	_ = os.Remove(tmpLink)
	_ = os.Symlink(sbInner, tmpLink)
}

func suffix() string {
	n := atomic.AddInt64(&counter, 1)
	s := tag + "x" + strconv.FormatInt(n, 36)
	if len(s) > 16 {
		s = s[len(s)-16:]
	}
	return s
}

// ---------------------------------------------------------------------------
// reference validator (three-valued), written from the statement
// ---------------------------------------------------------------------------

var alnum = regexp.MustCompile(`^[A-Za-z0-9]{1,16}$`)
var loose = regexp.MustCompile(`^FS_[A-Za-z0-9._:\-]+$`)

const (
	mustAccept = "must-accept"
	mustReject = "must-reject"
	either     = "either"
)

func classify(p string) string {
	if p == "" || !strings.HasPrefix(p, "/") {
		return mustReject
	}
	if filepath.Clean(p) != p {
		return mustReject
	}
	if filepath.Dir(p) != "/tmp" {
		return mustReject
	}
	leaf := filepath.Base(p)
	if !loose.MatchString(leaf) {
		return mustReject
	}
	rest := strings.TrimPrefix(leaf, "FS_")
	if alnum.MatchString(rest) {
		return mustAccept
	}
	f := strings.Split(rest, "_")
	if len(f) == 2 && !strings.HasPrefix(rest, "REMOTE") {
		return mustReject // FS_<x>_<y>: neither the plain nor the address-qualified shape
	}
	if len(f) > 3 && net.ParseIP(f[0]) != nil {
		return mustReject // an address-qualified name followed by further fields is not one of the recognised shapes
	}
	if len(f) == 3 && alnum.MatchString(f[2]) {
		ip := net.ParseIP(f[0])
		port, perr := strconv.Atoi(f[1])
		if ip != nil && perr == nil {
			wantPort, _ := strconv.Atoi(peerPort)
			if !ip.Equal(net.ParseIP(peerIP)) || port != wantPort {
				return mustReject // names another endpoint
			}
			if f[0] == peerIP && f[1] == peerPort {
				return mustAccept
			}
			return either // same endpoint in a non-canonical spelling
		}
	}
	return either
}

// ---------------------------------------------------------------------------
// effects observer
// ---------------------------------------------------------------------------

type snapshot map[string]string // path -> kind/mode

func describe(p string) string {
	fi, err := os.Lstat(p)
	if err != nil {
		return ""
	}
	kind := "other"
	switch {
	case fi.Mode()&os.ModeSymlink != 0:
		kind = "symlink"
	case fi.IsDir():
		kind = "dir"
	case fi.Mode().IsRegular():
		kind = "file"
	}
	return fmt.Sprintf("%s/%04o", kind, fi.Mode().Perm())
}

func candidates(p string) []string {
	leaf := filepath.Base(p)
	set := map[string]bool{}
	add := func(x string) {
		if x != "" && x != "/" && x != "/tmp" && x != "." && x != sandbox && x != sbInner {
			set[x] = true
		}
	}
	add(p)
	add(filepath.Clean(p))
	if !filepath.IsAbs(p) {
		if wd, err := os.Getwd(); err == nil {
			add(filepath.Join(wd, p))
		}
	}
	if leaf != "" && leaf != "." && leaf != ".." && leaf != "/" {
		add("/tmp/" + leaf)
		add(filepath.Join(sandbox, leaf))
		add(filepath.Join(sbInner, leaf))
		add("/var/tmp/" + leaf)
		if rp, err := filepath.EvalSymlinks(filepath.Dir(filepath.Clean(p))); err == nil {
			add(filepath.Join(rp, leaf))
		}
	}
	var out []string
	for k := range set {
		out = append(out, k)
	}
	sort.Strings(out)
	return out
}

func tree(root string) []string {
	var out []string
	_ = filepath.Walk(root, func(path string, info os.FileInfo, err error) error {
		if err == nil {
			out = append(out, path)
		}
		return nil
	})
	return out
}

func takeSnapshot(p string) snapshot {
	s := snapshot{}
	for _, c := range candidates(p) {
		if d := describe(c); d != "" {
			s[c] = d
		}
	}
	for _, t := range tree(sandbox) {
		s[t] = describe(t)
	}
	if ents, err := os.ReadDir("/tmp"); err == nil {
		for _, e := range ents {
			if strings.Contains(e.Name(), tag) {
				s["/tmp/"+e.Name()] = describe("/tmp/" + e.Name())
			}
		}
	}
	return s
}

func created(before, now snapshot) []string {
	var out []string
	for k, v := range now {
		if _, ok := before[k]; !ok {
			out = append(out, k+" ("+v+")")
		}
	}
	sort.Strings(out)
	return out
}

// ---------------------------------------------------------------------------
// client side
// ---------------------------------------------------------------------------

type ClientCase struct {
	Path    string `json:"path"`
	Verdict int    `json:"verdict"` // 0, -1, -99 (close)
	Peer    string `json:"peer,omitempty"` // address of the server as the client's connection sees it ("" = 127.0.0.1)
	// Recorded: the stream carries a recorded peer address (SetPeerAddr: what the caller asked to reach - a
	// forwarder, a shared-port or broker address) that differs from the endpoint the connection really has;
	// address-qualified names must name the REAL endpoint
	Recorded string `json:"recorded,omitempty"`
}

var peerChoices = []string{"", "::1", "2001:db8::7", "10.1.2.3"}

var fsMu sync.Mutex // filesystem observations are global: one case at a time

// runClient judges one client case. What the client does with a given path is deterministic, so a finding
// must reproduce: a first verdict is confirmed by running the same case again after a quiet moment (with the
// machine saturated, an exchange cut short by the harness's own time limits can leave a directory behind or
// show one that a straggler of the previous case is still removing). Exchanges that ran into those time
// limits are inconclusive and say nothing.
func runClient(c ClientCase) (string, string) {
	v, class := runClientOnce(c)
	if v == "" {
		return v, class
	}
	time.Sleep(400 * time.Millisecond)
	removeTagged()
	v2, _ := runClientOnce(c)
	if v2 == "" {
		ev.Class("client:first-verdict-not-reproduced(inconclusive)")
		return "", class
	}
	return v2, class
}

// removeTagged removes every object in /tmp that carries this process's tag.
func removeTagged() {
	fsMu.Lock()
	defer fsMu.Unlock()
	if ents, err := os.ReadDir("/tmp"); err == nil {
		for _, e := range ents {
			if strings.Contains(e.Name(), tag) && "/tmp/"+e.Name() != tmpLink {
				_ = os.Chmod("/tmp/"+e.Name(), 0o700)
				_ = os.RemoveAll("/tmp/" + e.Name())
			}
		}
	}
}

func timeLimitHit(err error) bool {
	return err != nil && (strings.Contains(err.Error(), "deadline exceeded") || strings.Contains(err.Error(), "context canceled") || strings.Contains(err.Error(), "timeout") || strings.Contains(err.Error(), "timed out"))
}

func runClientOnce(c ClientCase) (string, string) {
	fsMu.Lock()
	defer fsMu.Unlock()
	peerIP = "127.0.0.1"
	if c.Peer != "" {
		peerIP = c.Peer
	}
	defer func() { peerIP = "127.0.0.1" }()
	class := classify(c.Path)
	before := takeSnapshot(c.Path)
	var atReply snapshot
	pa, _ := kit.NextPorts()
	cc, sc := kit.NewBufPipeIP(net.ParseIP(peerIP), pa, net.ParseIP(peerIP), 9618)
	path := c.Path
	verdict := c.Verdict
	o := kit.PeerOpts{AuthMethods: "FS", CryptoMethods: "AES", SayAuth: "YES", SayEnc: "YES", FSPath: &path, FSVerdict: &verdict,
		FSInspect: func(int) { atReply = takeSnapshot(c.Path) }}
	var plog *kit.PeerLog
	var wg sync.WaitGroup
	wg.Add(1)
	go func() { defer wg.Done(); plog, _ = kit.ScriptedServer(sc, o, 2*time.Second) }()
	cfg := kit.BaseConfig(security.SecurityRequired, security.SecurityOptional, security.AuthFS)
	ctx, cancel := context.WithTimeout(context.Background(), 3*time.Second)
	cst := stream.NewStream(cc)
	if c.Recorded != "" {
		cst.SetPeerAddr("<" + net.JoinHostPort(c.Recorded, "9618") + ">")
	}
	_, herr := security.NewAuthenticator(cfg, cst).ClientHandshake(ctx)
	cancel()
	_ = cc.Close()
	wg.Wait()
	after := takeSnapshot(c.Path)
	defer func() { // leave nothing behind
		for _, k := range append(created(before, after), created(before, atReply)...) {
			_ = os.RemoveAll(strings.SplitN(k, " (", 2)[0])
		}
	}()
	end := created(before, after)
	if timeLimitHit(herr) || (plog != nil && timeLimitHit(plog.Err)) {
		ev.Class("client:exchange-hit-the-harness-time-limit(inconclusive)")
		return "", class
	}
	if len(c.Path) >= 4095 {
		// beyond the client's size cap for this field: it aborts the exchange without reporting a
		// result (what the scripted server reads next is the client's give-up bitmask, not a result)
		if len(end) > 0 || len(created(before, atReply)) > 0 {
			return fmt.Sprintf("an over-long path caused filesystem changes: %v %v", created(before, atReply), end), class
		}
		return "", class
	}
	if !plog.FSResultSeen {
		// the client aborted before reporting (e.g. a path beyond its size cap): fine if nothing happened
		if len(end) > 0 {
			return fmt.Sprintf("the client aborted the exchange but left behind: %v", end), class
		}
		if herr == nil {
			return "the client aborted the FS exchange yet the handshake succeeded", class
		}
		if class == mustAccept {
			return fmt.Sprintf("a must-accept path made the client abort: %v", herr), class
		}
		return "", class
	}
	mid := created(before, atReply)
	leafPath := "/tmp/" + filepath.Base(c.Path)
	if class == mustReject {
		if len(mid) > 0 || len(end) > 0 {
			return fmt.Sprintf("a path that must be rejected caused filesystem changes: at reply %v, afterwards %v", mid, end), class
		}
		if plog.FSClientResult == 0 {
			return "a path that must be rejected was answered with result 0", class
		}
		// (whether the handshake then fails is the server's verdict to give: the statement
		// asks for no filesystem change and a clean failure reply, which is what is checked)
	}
	if len(mid) > 1 {
		return fmt.Sprintf("more than one object was created: %v", mid), class
	}
	if len(mid) == 1 {
		want := leafPath + " (dir/0700)"
		if mid[0] != want {
			return fmt.Sprintf("the client created %s; only %s is allowed", mid[0], want), class
		}
		if plog.FSClientResult != 0 {
			return "the client created a directory but reported failure", class
		}
	}
	if len(mid) == 0 && plog.FSClientResult == 0 {
		return "the client reported success without having created the directory", class
	}
	if len(end) > 0 {
		return fmt.Sprintf("after the exchange (server verdict %d) the client left behind: %v", c.Verdict, end), class
	}
	if class == mustAccept {
		if plog.FSClientResult != 0 || len(mid) != 1 {
			return fmt.Sprintf("a path of the recognised shape directly under /tmp was not honoured (result %d, created %v)", plog.FSClientResult, mid), class
		}
		if c.Verdict == 0 && herr != nil {
			return fmt.Sprintf("honest FS exchange with verdict 0 failed on the client: %v", herr), class
		}
	}
	return "", class
}

var bases = []string{"/tmp", "/tmp/", "//tmp", "/tmp/.", "/var/tmp", "tmp", "", "/", "/tmp/..", "/tmp/../tmp"}
var seps = []string{"/", "//", "/./", "/../", "/x/../", "/../tmp/"}

func leafs() []string {
	s := suffix()
	long17 := s + strings.Repeat("q", 17-len(s))
	return []string{
		"FS_" + s, "FS_" + strings.ToUpper(s), "FS_" + peerIP + "_" + peerPort + "_" + s, "FS_127.0.0.1_09618_" + s, "FS_::ffff:127.0.0.1_9618_" + s,
		"FS_127.0.0.2_9618_" + s, "FS_127.0.0.1_9619_" + s, "FS_::1_9618_" + s, "FS_localhost_9618_" + s, "FS_10.0.0.1_1_" + s, "FS_127.0.0.1_99999_" + s,
		"FS_", "FS-" + s, "fs_" + s, "XS_" + s, "FS_" + s + ".y", "FS_" + s + "/y", "FS_REMOTE_h_1_" + s, "FS_" + long17, "FS_" + s + "\x01", "FS_" + s + "\n", "FS_" + s + "é",
		"FS_" + s + " ", " FS_" + s, "FS_" + strings.Repeat("a", 4090), "..", ".", s, "FS_" + s + "_", "FS__" + s, "FS_127.0.0.1_9618_", "FS_127.0.0.1__" + s,
		"FS_2001:db8::5_9618_" + s, "FS_::2_9618_" + s, "FS_fe80::1_9618_" + s, "FS_0:0:0:0:0:0:0:1_9618_" + s, "FS_2001:db8::7_9618_" + s, "FS_2001:db8::7_9619_" + s,
		"FS_10.1.2.3_9618_" + s, "FS_10.1.2.4_9618_" + s, "FS_::ffff:10.1.2.3_9618_" + s, "FS_REMOTE_2001:db8::5_9618_" + s,
		// near misses of the plain shape: characters just outside [A-Za-z0-9]
		"FS_" + s + "^x", "FS_[" + s + "]", "FS_a\\" + s, "FS_a`" + s, "FS_" + s + "_b", "FS_" + s + "@", "FS_" + s + "~", "FS_" + s + "{", "FS_" + s + "/",
		// the live endpoint, a valid suffix, and then more
		"FS_" + peerIP + "_" + peerPort + "_" + s + "_x", "FS_" + peerIP + "_" + peerPort + "_" + s + "_..", "FS_" + peerIP + "_" + peerPort + "_" + s + "_a b",
		"FS_" + peerIP + "_" + peerPort + "_" + s + "_\x01", "FS_" + peerIP + "_" + peerPort + "_" + s + "_", "FS_" + peerIP + "_" + peerPort + "_" + s + "_" + strings.Repeat("z", 300),
		"FS_" + peerIP + "_" + peerPort + "__" + s, "FS_" + peerIP + "_" + peerPort + "_" + s + "_" + s,
	}
}

func genPath(t *rapid.T) string {
	allBases := append(append([]string{}, bases...), sandbox, sbInner, sbLink, tmpLink, sandbox+"/", filepath.Join(sandbox, "nonexistent"))
	switch rapid.IntRange(0, 9).Draw(t, "shape") {
	case 0, 1, 2: // grammar
		b := rapid.SampledFrom(allBases).Draw(t, "base")
		sp := rapid.SampledFrom(seps).Draw(t, "sep")
		l := rapid.SampledFrom(leafs()).Draw(t, "leaf")
		return b + sp + l
	case 3: // directly under /tmp with any leaf
		return "/tmp/" + rapid.SampledFrom(leafs()).Draw(t, "leaf")
	case 4: // recognised shapes
		if rapid.Bool().Draw(t, "qualified") {
			return "/tmp/FS_" + peerIP + "_" + peerPort + "_" + suffix()
		}
		return "/tmp/FS_" + suffix()
	case 5: // nested / trailing
		return "/tmp/" + rapid.SampledFrom(leafs()).Draw(t, "leaf") + rapid.SampledFrom([]string{"/", "/.", "/sub", "/..", "//"}).Draw(t, "tail")
	case 6: // long fields
		return "/tmp/FS_" + strings.Repeat("a", rapid.SampledFrom([]int{17, 200, 4080, 4090, 5000}).Draw(t, "len"))
	default: // byte mutation of an accepted path
		p := []byte("/tmp/FS_" + suffix())
		if rapid.Bool().Draw(t, "addr") {
			p = []byte("/tmp/FS_" + peerIP + "_" + peerPort + "_" + suffix())
		}
		n := rapid.IntRange(1, 2).Draw(t, "nmut")
		for i := 0; i < n; i++ {
			pos := rapid.IntRange(0, len(p)-1).Draw(t, "pos")
			switch rapid.IntRange(0, 2).Draw(t, "mkind") {
			case 0:
				p[pos] = byte(rapid.SampledFrom([]int{'/', '.', '_', 0x01, 0xff, ' ', 'A', '0', ':', '-'}).Draw(t, "byte"))
			case 1:
				p = append(p[:pos], p[pos+1:]...)
			default:
				p = append(p[:pos], append([]byte{byte(rapid.SampledFrom([]int{'/', '.', '_', 'x'}).Draw(t, "ins"))}, p[pos:]...)...)
			}
		}
		return string(p)
	}
}

func TestC18ClientPaths(t *testing.T) {
	rapid.Check(t, func(t *rapid.T) {
		c := ClientCase{Peer: rapid.SampledFrom(peerChoices).Draw(t, "peer"), Verdict: rapid.SampledFrom([]int{0, 0, -1, -99}).Draw(t, "verdict")}
		peerIP = "127.0.0.1"
		if c.Peer != "" {
			peerIP = c.Peer // the generator builds the matching leaf from it
		}
		c.Path = genPath(t)
		peerIP = "127.0.0.1"
		if strings.Contains(c.Path, "\x00") {
			return
		}
		v, class := runClient(c)
		k := ""
		if class != mustAccept {
			k = c.Path
		}
		ev.Case("client:"+class, k)
		if len(c.Path) < 120 {
			ev.Sample("client-path", c)
		}
		if v != "" {
			js, _ := json.Marshal(c)
			t.Fatalf("C18 violated: %s\ncase: %s (class %s)", v, js, class)
		}
	})
}

// TestC18ClientGrammar: the whole base x separator x leaf product once.
func TestC18ClientGrammar(t *testing.T) {
	allBases := append(append([]string{}, bases...), sandbox, sbInner, sbLink, tmpLink)
	bad := 0
	n := 0
	for _, b := range allBases {
		for _, sp := range seps {
			for li := range leafs() {
				n++
				if n%kit.NShards() != kit.Shard() {
					continue
				}
				l := leafs()[li]
				c := ClientCase{Path: b + sp + l, Verdict: []int{0, -1, -99}[n%3]}
				v, class := runClient(c)
				k := ""
				if class != mustAccept {
					k = c.Path
				}
				ev.Case("client:"+class, k)
				if v != "" && bad < 5 {
					bad++
					kit.Violation("C18", v, map[string]any{"side": "client", "case": c})
					t.Errorf("C18 violated: %s (path %q, class %s)", v, c.Path, class)
				}
			}
		}
	}
	// the connection's own address: IPv6 and non-loopback peers, every leaf directly under /tmp
	for _, peer := range peerChoices[1:] {
		peerIP = peer
		ls := leafs()
		peerIP = "127.0.0.1"
		for li, l := range ls {
			c := ClientCase{Path: "/tmp/" + l, Verdict: []int{0, -1, -99}[li%3], Peer: peer}
			v, class := runClient(c)
			ev.Case("client:"+class+"/peer="+peer, peer+c.Path)
			if v != "" && bad < 5 {
				bad++
				kit.Violation("C18", v, map[string]any{"side": "client", "case": c})
				t.Errorf("C18 violated: %s (path %q, peer %s, class %s)", v, c.Path, peer, class)
			}
		}
	}
	// a recorded peer address that is not the connection's endpoint: leafs naming the recorded address must be
	// refused, leafs naming the real endpoint honoured as ever
	for _, rec := range []string{"127.0.0.2", "10.9.9.9", "::1"} {
		for _, named := range []string{rec, "127.0.0.1"} {
			peerIP = named
			ls := leafs()
			peerIP = "127.0.0.1"
			for li, l := range ls {
				c := ClientCase{Path: "/tmp/" + l, Verdict: []int{0, -1, -99}[li%3], Recorded: rec}
				v, class := runClient(c)
				ev.Case("client:"+class+"/recorded="+rec, rec+named+c.Path)
				if v != "" && bad < 5 {
					bad++
					kit.Violation("C18", v, map[string]any{"side": "client", "case": c})
					t.Errorf("C18 violated: %s (path %q, recorded peer %s, class %s)", v, c.Path, rec, class)
				}
			}
		}
	}
	ev.Exhaustive(fmt.Sprintf("the product of %d bases x %d separators x %d leaf shapes on the client side; every leaf directly under /tmp for 3 further connection addresses (IPv6 loopback, global IPv6, private IPv4)", len(allBases), len(seps), len(leafs())))
}

// ---------------------------------------------------------------------------
// server side
// ---------------------------------------------------------------------------

type ServerCase struct {
	Object string `json:"object"`
	Result int    `json:"result"`
}

var objects = []string{"nothing", "dir0700", "dir0750", "dir0755", "dir0777", "dir0000", "dir0500", "file", "fifo", "symlink-to-dir", "symlink-dangling", "dir-nobody", "dir-with-subdir", "dir0700-setgid",
	// the other file types, owner-only: their st_mode type bits overlap S_IFDIR's (socket 0140000, block device 0060000) or not (character device 0020000)
	"socket0700", "blockdev0700", "chardev0700", "file0600",
	// owner and group that are different accounts: the identity is the OWNER's
	"dir0700-othergroup", "dir-nobody-group0"}

func runServer(c ServerCase) string {
	fsMu.Lock()
	defer fsMu.Unlock()
	pa, _ := kit.NextPorts()
	cc, sc := kit.NewBufPipe(pa, 9618)
	var sneg *security.SecurityNegotiation
	var serr error
	var wg sync.WaitGroup
	wg.Add(1)
	go func() {
		defer wg.Done()
		ctx, cancel := context.WithTimeout(context.Background(), 3*time.Second)
		defer cancel()
		cfg := kit.BaseConfig(security.SecurityRequired, security.SecurityOptional, security.AuthFS)
		cfg.SessionCache = nil
		sneg, serr = security.NewAuthenticator(cfg, stream.NewStream(sc)).ServerHandshake(ctx)
		if serr != nil {
			_ = sc.Close()
		}
	}()
	var announced string
	target := filepath.Join(sbInner, "target"+suffix())
	leave := func(path string) int {
		announced = path
		if !strings.HasPrefix(path, "/tmp/FS_") {
			return -1
		}
		switch c.Object {
		case "nothing":
		case "file":
			_ = os.WriteFile(path, []byte("x"), 0o700)
		case "fifo":
			_ = syscall.Mkfifo(path, 0o700)
		case "socket0700":
			if l, err := net.ListenUnix("unix", &net.UnixAddr{Name: path, Net: "unix"}); err == nil {
				l.SetUnlinkOnClose(false)
				_ = l.Close()
				_ = os.Chmod(path, 0o700)
			}
		case "blockdev0700": // (needs privilege; without it nothing is left, which must be refused as well)
			_ = syscall.Mknod(path, syscall.S_IFBLK|0o700, 7<<8|99)
		case "chardev0700":
			_ = syscall.Mknod(path, syscall.S_IFCHR|0o700, 1<<8|3)
		case "file0600":
			_ = os.WriteFile(path, []byte("x"), 0o600)
		case "symlink-to-dir":
			_ = os.Mkdir(target, 0o700)
			_ = os.Symlink(target, path)
		case "symlink-dangling":
			_ = os.Symlink(target+"-none", path)
		case "dir-nobody":
			_ = os.Mkdir(path, 0o700)
			_ = os.Chown(path, 65534, 65534)
		case "dir0700-othergroup":
			_ = os.Mkdir(path, 0o700)
			_ = os.Chown(path, -1, 1)
		case "dir-nobody-group0":
			_ = os.Mkdir(path, 0o700)
			_ = os.Chown(path, 65534, 0)
		case "dir-with-subdir":
			_ = os.Mkdir(path, 0o700)
			_ = os.Mkdir(filepath.Join(path, "sub"), 0o700)
		case "dir0700-setgid":
			_ = os.Mkdir(path, 0o700)
			_ = os.Chmod(path, 0o700|os.ModeSetgid)
		default:
			m, _ := strconv.ParseUint(strings.TrimPrefix(c.Object, "dir"), 8, 32)
			_ = os.Mkdir(path, os.FileMode(m))
			_ = os.Chmod(path, os.FileMode(m))
		}
		return c.Result
	}
	o := kit.PeerOpts{AuthMethods: "FS", CryptoMethods: "AES", SayAuth: "REQUIRED", SayEnc: "OPTIONAL", Command: 60011, FSLeave: leave}
	plog, _ := kit.ScriptedClient(cc, o, 2*time.Second)
	_ = cc.Close()
	wg.Wait()
	defer func() {
		if announced != "" && strings.HasPrefix(announced, "/tmp/FS_") {
			_ = os.Chmod(announced, 0o700)
			_ = os.RemoveAll(announced)
		}
		_ = os.RemoveAll(target)
	}()
	if announced == "" {
		return fmt.Sprintf("harness: the server never announced a path (%v / %v)", plog.Err, serr)
	}
	if classify(announced) == mustReject {
		return fmt.Sprintf("the server announced a path its own client would have to reject: %q", announced)
	}
	realDir := c.Object == "dir0700" || c.Object == "dir-nobody" || c.Object == "dir0700-othergroup" || c.Object == "dir-nobody-group0"
	eitherObj := c.Object == "dir-with-subdir" || c.Object == "dir0700-setgid"
	shouldSucceed := c.Result == 0 && realDir
	ok := serr == nil
	if ok && !shouldSucceed && !(eitherObj && c.Result == 0) {
		return fmt.Sprintf("the server accepted FS authentication although the client left %q and reported %d (identity %q)", c.Object, c.Result, sneg.User)
	}
	if !ok && shouldSucceed {
		return fmt.Sprintf("non-vacuity: the server rejected an honest 0700 directory (%s): %v", c.Object, serr)
	}
	if ok {
		wantUser := "root"
		if u, err := user.Current(); err == nil {
			wantUser = u.Username
		}
		if c.Object == "dir-nobody" || c.Object == "dir-nobody-group0" {
			if u, err := user.LookupId("65534"); err == nil {
				wantUser = u.Username
			}
		}
		if sneg.User != wantUser {
			return fmt.Sprintf("the server recorded identity %q, the directory's owner is %q", sneg.User, wantUser)
		}
		if !sneg.Authentication || sneg.NegotiatedAuth != security.AuthFS {
			return fmt.Sprintf("success but Authentication=%v method=%s", sneg.Authentication, sneg.NegotiatedAuth)
		}
	}
	if c.Result == 0 && c.Object != "dir-with-subdir" && c.Object != "nothing" {
		if _, err := os.Lstat(announced); err == nil {
			return fmt.Sprintf("the server did not remove %s (%s) after checking it", announced, c.Object)
		}
	}
	if c.Object == "symlink-to-dir" {
		if _, err := os.Lstat(target); err != nil {
			return "the server removed the TARGET of a symlink left at the announced path"
		}
	}
	return ""
}

func TestC18ServerObjects(t *testing.T) {
	bad := 0
	rounds := kit.Scale(3, 12)
	for r := 0; r < rounds; r++ {
		for _, ob := range objects {
			for _, res := range []int{0, -1, 1, 7} {
				c := ServerCase{ob, res}
				v := runServer(c)
				k := ""
				if ob != "dir0700" || res != 0 {
					k = fmt.Sprintf("%s/%d", ob, res)
				}
				ev.Case("server:"+ob, k)
				if r == 0 && res == 0 && (ob == "fifo" || ob == "dir-nobody") {
					ev.Sample("server-object", c)
				}
				if v != "" && bad < 5 {
					bad++
					kit.Violation("C18", v, map[string]any{"side": "server", "case": c})
					t.Errorf("C18 violated: %s", v)
				}
			}
		}
	}
	ev.Exhaustive(fmt.Sprintf("%d kinds of object left at the announced path x 4 client results, %d rounds", len(objects), rounds))
}

func TestC18Replay(t *testing.T) {
	var raw map[string]json.RawMessage
	ok, err := kit.ReplayCase(&raw)
	if !ok {
		t.Skip("no VERIF_REPLAY")
	}
	if err != nil {
		t.Fatal(err)
	}
	var side string
	_ = json.Unmarshal(raw["side"], &side)
	if side == "server" {
		var c ServerCase
		_ = json.Unmarshal(raw["case"], &c)
		if v := runServer(c); v != "" {
			t.Fatalf("C18 violated: %s", v)
		}
		return
	}
	var c ClientCase
	if raw["case"] != nil {
		_ = json.Unmarshal(raw["case"], &c)
	} else {
		_ = json.Unmarshal(raw["path"], &c.Path)
	}
	if v, _ := runClient(c); v != "" {
		t.Fatalf("C18 violated: %s", v)
	}
}
