package kit

// Builders for cleartext CEDAR messages from the format description, used by
// scripted peers and by the structure-aware hostile-input generators.

// MsgBuf accumulates the typed values of one message.
type MsgBuf struct{ B []byte }

func (m *MsgBuf) Int(v int64) *MsgBuf     { m.B = append(m.B, RefInt64(v)...); return m }
func (m *MsgBuf) Str(s string) *MsgBuf    { m.B = append(m.B, RefString(s, false)...); return m }
func (m *MsgBuf) Raw(b []byte) *MsgBuf    { m.B = append(m.B, b...); return m }
func (m *MsgBuf) Char(c byte) *MsgBuf     { m.B = append(m.B, c); return m }
func (m *MsgBuf) EncStr(s string) *MsgBuf { m.B = append(m.B, RefString(s, true)...); return m }

// ClassAd appends an ad in wire form: count, "Attr = Value" strings, MyType, TargetType.
func (m *MsgBuf) ClassAd(exprs []string, myType, targetType string) *MsgBuf {
	m.Int(int64(len(exprs)))
	for _, e := range exprs {
		m.Str(e)
	}
	return m.Str(myType).Str(targetType)
}

// Frame returns the message as a single complete cleartext frame.
func (m *MsgBuf) Frame() []byte { return BuildFrame(1, m.B) }

// Frames returns the message cut into frames of at most n payload bytes.
func (m *MsgBuf) Frames(n int) []byte {
	var out []byte
	b := m.B
	for len(b) > n {
		out = append(out, BuildFrame(0, b[:n])...)
		b = b[n:]
	}
	return append(out, BuildFrame(1, b)...)
}
