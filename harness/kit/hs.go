package kit

import (
	"context"
	"sync/atomic"
	"time"

	"github.com/bbockelm/cedar/security"
	"github.com/bbockelm/cedar/stream"
)

var portCounter int64 = 20000

// NextPorts hands out distinct fake port numbers for in-memory connections.
func NextPorts() (int, int) {
	p := int(atomic.AddInt64(&portCounter, 2))
	return 30000 + p%20000, 9618
}

// HSResult is the outcome of one handshake between two endpoints.
type HSResult struct {
	CNeg, SNeg   *security.SecurityNegotiation
	CErr, SErr   error
	CStream      *stream.Stream
	SStream      *stream.Stream
	CConn, SConn *BufConn
	CAuth, SAuth *security.Authenticator
	TimedOut     bool
}

// Handshake runs a real client handshake against a real server handshake over
// an in-memory connection. Either config may be nil when the caller drives that
// side itself through the returned connections (scripted peer).
func Handshake(ccfg, scfg *security.SecurityConfig, limit time.Duration) *HSResult {
	return HandshakeHook(ccfg, scfg, limit, nil)
}

// HandshakeHook is Handshake with a hook that may adjust the server's Authenticator before it runs
// (e.g. install ServerConfigForCommand).
func HandshakeHook(ccfg, scfg *security.SecurityConfig, limit time.Duration, serverHook func(*security.Authenticator)) *HSResult {
	pa, pb := NextPorts()
	cc, sc := NewBufPipe(pa, pb)
	r := &HSResult{CConn: cc, SConn: sc}
	ctx, cancel := context.WithTimeout(context.Background(), limit)
	defer cancel()
	done := make(chan struct{}, 2)
	if ccfg != nil {
		r.CStream = stream.NewStream(cc)
		r.CAuth = security.NewAuthenticator(ccfg, r.CStream)
		go func() {
			r.CNeg, r.CErr = r.CAuth.ClientHandshake(ctx)
			if r.CErr != nil {
				_ = cc.Close()
			}
			done <- struct{}{}
		}()
	} else {
		done <- struct{}{}
	}
	if scfg != nil {
		r.SStream = stream.NewStream(sc)
		r.SAuth = security.NewAuthenticator(scfg, r.SStream)
		if serverHook != nil {
			serverHook(r.SAuth)
		}
		go func() {
			r.SNeg, r.SErr = r.SAuth.ServerHandshake(ctx)
			if r.SErr != nil {
				_ = sc.Close()
			}
			done <- struct{}{}
		}()
	} else {
		done <- struct{}{}
	}
	<-done
	<-done
	if ctx.Err() != nil {
		r.TimedOut = true
	}
	return r
}

// BaseConfig returns a config with the given levels, CLAIMTOBE as the method
// and AES as the cipher, and its own session cache.
func BaseConfig(auth, enc security.SecurityLevel, methods ...security.AuthMethod) *security.SecurityConfig {
	if len(methods) == 0 {
		methods = []security.AuthMethod{security.AuthClaimToBe}
	}
	return &security.SecurityConfig{
		AuthMethods:    methods,
		Authentication: auth,
		CryptoMethods:  []security.CryptoMethod{security.CryptoAES},
		Encryption:     enc,
		Integrity:      security.SecurityOptional,
		Command:        60011,
		SessionCache:   security.NewSessionCache(),
		TrustDomain:    "verif.test",
	}
}
