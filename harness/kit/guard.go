package kit

import (
	"fmt"
	"runtime"
	"runtime/debug"
	"time"
)

// Outcome is what Guard observed while running a decoder on hostile input.
type Outcome struct {
	Panic    string
	TimedOut bool
	Alloc    uint64 // TotalAlloc delta (bytes allocated on the heap, cumulative)
	Stack    uint64 // growth of stack memory in use, measured before the goroutine unwinds its stack
	Elapsed  time.Duration
}

// Guard runs f in a fresh goroutine, converts a panic into a value, measures
// heap allocation and stack growth, and gives up waiting after limit (the
// goroutine cannot be killed; the caller reports and the process exits soon).
func Guard(limit time.Duration, f func()) Outcome {
	done := make(chan Outcome, 1)
	go func() {
		var o Outcome
		var m0, m1 runtime.MemStats
		runtime.ReadMemStats(&m0)
		t0 := time.Now()
		func() {
			defer func() {
				if r := recover(); r != nil {
					o.Panic = fmt.Sprintf("%v\n%s", r, debug.Stack())
				}
			}()
			f()
		}()
		o.Elapsed = time.Since(t0)
		runtime.ReadMemStats(&m1)
		o.Alloc = m1.TotalAlloc - m0.TotalAlloc
		if m1.StackInuse > m0.StackInuse {
			o.Stack = m1.StackInuse - m0.StackInuse
		}
		done <- o
	}()
	select {
	case o := <-done:
		return o
	case <-time.After(limit):
		return Outcome{TimedOut: true, Elapsed: limit}
	}
}

// Budget is the allocation oracle of C13: base + perByte * bytes supplied.
func Budget(base, perByte uint64, n int) uint64 { return base + perByte*uint64(n) }
