package kit

import (
	"io"
	"net"
	"sync"
	"time"
)

// MemConn is a single-goroutine friendly net.Conn. Read drains the In buffer and
// returns io.EOF once it is empty; Write appends to Out (and, when Peer is set,
// to Peer.In, which cross-wires two MemConns into a pipe that never blocks).
// All counters are exact: they are what the C13 oracles use as a step bound and
// as "bytes actually handed to the decoder".
type MemConn struct {
	mu       sync.Mutex
	In       []byte
	rd       int
	Out      []byte
	Peer     *MemConn
	Reads    int // number of Read calls
	ReadN    int // bytes handed out
	Writes   int
	Closed   bool
	WriteErr error
	MaxRead  int // >0: every Read hands out at most this many bytes (the peer's bytes trickle in)
	// PartialWrite, when armed (PartialWriteArmed), makes the NEXT Write pass only its first PartialWrite
	// bytes and then fail with ErrInjectedWrite (one-shot): a write deadline firing in mid-frame.
	PartialWrite      int
	PartialWriteArmed bool
	// Writes, if RecordWrites is set, keeps every Write call's bytes separately
	// (cedar writes exactly one frame per Write call).
	RecordWrites bool
	WriteLog     [][]byte
}

// ErrInjectedWrite is what an armed partial write returns.
var ErrInjectedWrite = errInjected{}

type errInjected struct{}

func (errInjected) Error() string   { return "injected write failure (deadline in mid-frame)" }
func (errInjected) Timeout() bool   { return true }
func (errInjected) Temporary() bool { return true }

type memAddr string

func (a memAddr) Network() string { return "mem" }
func (a memAddr) String() string  { return string(a) }

func NewMemConn() *MemConn { return &MemConn{} }

// NewMemPipe returns two cross-wired MemConns.
func NewMemPipe() (*MemConn, *MemConn) {
	a, b := &MemConn{}, &MemConn{}
	a.Peer, b.Peer = b, a
	return a, b
}

func (c *MemConn) Read(p []byte) (int, error) {
	c.mu.Lock()
	defer c.mu.Unlock()
	c.Reads++
	if c.Closed {
		return 0, net.ErrClosed
	}
	if c.rd >= len(c.In) {
		return 0, io.EOF
	}
	if c.MaxRead > 0 && len(p) > c.MaxRead {
		p = p[:c.MaxRead]
	}
	n := copy(p, c.In[c.rd:])
	c.rd += n
	c.ReadN += n
	if c.rd == len(c.In) {
		c.In, c.rd = c.In[:0], 0
	}
	return n, nil
}

func (c *MemConn) Write(p []byte) (int, error) {
	c.mu.Lock()
	if c.Closed {
		c.mu.Unlock()
		return 0, net.ErrClosed
	}
	if c.WriteErr != nil {
		c.mu.Unlock()
		return 0, c.WriteErr
	}
	c.Writes++
	if c.PartialWriteArmed {
		c.PartialWriteArmed = false
		k := c.PartialWrite
		if k > len(p) {
			k = len(p)
		}
		c.Out = append(c.Out, p[:k]...)
		if c.RecordWrites {
			c.WriteLog = append(c.WriteLog, append([]byte(nil), p[:k]...))
		}
		peer := c.Peer
		c.mu.Unlock()
		if peer != nil {
			peer.Feed(p[:k])
		}
		return k, ErrInjectedWrite
	}
	c.Out = append(c.Out, p...)
	if c.RecordWrites {
		c.WriteLog = append(c.WriteLog, append([]byte(nil), p...))
	}
	peer := c.Peer
	c.mu.Unlock()
	if peer != nil {
		peer.Feed(p)
	}
	return len(p), nil
}

// Feed appends bytes to the read side.
func (c *MemConn) Feed(p []byte) {
	c.mu.Lock()
	c.In = append(c.In, p...)
	c.mu.Unlock()
}

// Pending reports how many fed bytes have not been read yet.
func (c *MemConn) Pending() int {
	c.mu.Lock()
	defer c.mu.Unlock()
	return len(c.In) - c.rd
}

// TakeOut returns and clears everything written so far.
func (c *MemConn) TakeOut() []byte {
	c.mu.Lock()
	defer c.mu.Unlock()
	o := c.Out
	c.Out = nil
	return o
}

func (c *MemConn) Close() error {
	c.mu.Lock()
	c.Closed = true
	c.mu.Unlock()
	return nil
}
func (c *MemConn) LocalAddr() net.Addr                { return memAddr("127.0.0.1:1") }
func (c *MemConn) RemoteAddr() net.Addr               { return memAddr("127.0.0.1:2") }
func (c *MemConn) SetDeadline(t time.Time) error      { return nil }
func (c *MemConn) SetReadDeadline(t time.Time) error  { return nil }
func (c *MemConn) SetWriteDeadline(t time.Time) error { return nil }
