package kit

import (
	"crypto/ecdsa"
	"crypto/elliptic"
	"crypto/rand"
	"crypto/x509"
	"crypto/x509/pkix"
	"encoding/pem"
	"math/big"
	"net"
	"os"
	"path/filepath"
	"time"

	"github.com/bbockelm/cedar/security"
)

// SSLEnv is a self-signed certificate (also its own CA) for SSL-method handshakes.
type SSLEnv struct{ Dir, Cert, Key string }

func NewSSLEnv() (*SSLEnv, error) {
	dir, err := os.MkdirTemp("", "verifssl")
	if err != nil {
		return nil, err
	}
	priv, err := ecdsa.GenerateKey(elliptic.P256(), rand.Reader)
	if err != nil {
		return nil, err
	}
	tpl := &x509.Certificate{SerialNumber: big.NewInt(1), Subject: pkix.Name{CommonName: "localhost"},
		NotBefore: time.Now().Add(-time.Hour), NotAfter: time.Now().Add(240 * time.Hour),
		KeyUsage: x509.KeyUsageDigitalSignature | x509.KeyUsageCertSign, ExtKeyUsage: []x509.ExtKeyUsage{x509.ExtKeyUsageServerAuth, x509.ExtKeyUsageClientAuth},
		BasicConstraintsValid: true, IsCA: true, DNSNames: []string{"localhost"}, IPAddresses: []net.IP{net.IPv4(127, 0, 0, 1)}}
	der, err := x509.CreateCertificate(rand.Reader, tpl, tpl, &priv.PublicKey, priv)
	if err != nil {
		return nil, err
	}
	kb, err := x509.MarshalECPrivateKey(priv)
	if err != nil {
		return nil, err
	}
	e := &SSLEnv{Dir: dir, Cert: filepath.Join(dir, "cert.pem"), Key: filepath.Join(dir, "key.pem")}
	if err := os.WriteFile(e.Cert, pem.EncodeToMemory(&pem.Block{Type: "CERTIFICATE", Bytes: der}), 0o600); err != nil {
		return nil, err
	}
	if err := os.WriteFile(e.Key, pem.EncodeToMemory(&pem.Block{Type: "EC PRIVATE KEY", Bytes: kb}), 0o600); err != nil {
		return nil, err
	}
	return e, nil
}

// Apply provisions SSL credentials: the server presents the certificate, the client trusts it.
func (e *SSLEnv) Apply(cc, sc *security.SecurityConfig) {
	if cc != nil {
		cc.CAFile, cc.ServerName = e.Cert, "localhost"
	}
	if sc != nil {
		sc.CertFile, sc.KeyFile, sc.CAFile = e.Cert, e.Key, e.Cert
	}
}
