package kit

import (
	"crypto/hmac"
	"crypto/sha256"
	"encoding/base64"
	"encoding/json"
	"io"
	"os"
	"path/filepath"
	"time"

	"github.com/bbockelm/cedar/security"
	"golang.org/x/crypto/hkdf"
)

// Reference IDTOKEN signer/verifier written from the format description:
// the signing key file holds the key XOR-scrambled with de ad be ef; the JWT
// HMAC-SHA256 key is HKDF-SHA256(key [doubled for POOL], salt "htcondor",
// info "master jwt", 32 bytes); the token is b64url(header).b64url(payload).b64url(mac).

func Scramble(b []byte) []byte {
	db := []byte{0xde, 0xad, 0xbe, 0xef}
	out := make([]byte, len(b))
	for i := range b {
		out[i] = b[i] ^ db[i%4]
	}
	return out
}

// RefJWTKey derives the HMAC key from the raw (unscrambled) signing key.
func RefJWTKey(rawKey []byte, pool bool) []byte {
	in := rawKey
	if pool {
		in = append(append([]byte(nil), rawKey...), rawKey...)
	}
	k := make([]byte, 32)
	_, _ = io.ReadFull(hkdf.New(sha256.New, in, []byte("htcondor"), []byte("master jwt")), k)
	return k
}

func B64(b []byte) string { return base64.RawURLEncoding.EncodeToString(b) }

// RefSignParts signs already-encoded header and payload segments.
func RefSignParts(rawKey []byte, pool bool, headerB64, payloadB64 string) (token string, sig []byte) {
	m := hmac.New(sha256.New, RefJWTKey(rawKey, pool))
	m.Write([]byte(headerB64 + "." + payloadB64))
	sig = m.Sum(nil)
	return headerB64 + "." + payloadB64 + "." + B64(sig), sig
}

// RefSign signs JSON header and payload objects.
func RefSign(rawKey []byte, pool bool, header, payload map[string]any) (string, []byte) {
	h, _ := json.Marshal(header)
	p, _ := json.Marshal(payload)
	return RefSignParts(rawKey, pool, B64(h), B64(p))
}

// TokenEnv is a directory with a named signing key, a pool key and a valid
// token, for handshakes that use TOKEN authentication.
type TokenEnv struct {
	Dir      string
	KeyID    string
	RawKey   []byte
	PoolKey  []byte
	PoolFile string
	Token    string
	Sig      []byte
	Subject  string
	Issuer   string
	// EvilKey is a signing key the verifier does NOT hold: it is stored outside the key directory, in a
	// sibling directory whose name starts like the key directory's (<Dir>/keys.bak/evil)
	EvilKey []byte
}

func NewTokenEnv() *TokenEnv {
	dir, err := os.MkdirTemp("", "veriftok")
	if err != nil {
		panic(err)
	}
	e := &TokenEnv{Dir: dir, KeyID: "verifkey", RawKey: Pattern(32, 4711), PoolKey: Pattern(64, 4712),
		Subject: "alice@verif.test", Issuer: "verif.test"}
	_ = os.MkdirAll(filepath.Join(dir, "keys"), 0o700)
	_ = os.WriteFile(filepath.Join(dir, "keys", e.KeyID), Scramble(e.RawKey), 0o600)
	e.EvilKey = Pattern(32, 4713)
	_ = os.MkdirAll(filepath.Join(dir, "keys.bak"), 0o700)
	_ = os.WriteFile(filepath.Join(dir, "keys.bak", "evil"), Scramble(e.EvilKey), 0o600)
	e.PoolFile = filepath.Join(dir, "pool_key")
	_ = os.WriteFile(e.PoolFile, Scramble(e.PoolKey), 0o600)
	now := time.Now().Unix()
	e.Token, e.Sig = RefSign(e.RawKey, false, map[string]any{"alg": "HS256", "typ": "JWT", "kid": e.KeyID},
		map[string]any{"sub": e.Subject, "iss": e.Issuer, "iat": now - 60, "exp": now + 86400, "jti": "verif-jti"})
	return e
}

// Apply provisions TOKEN credentials on a client and a server config (either may be nil).
func (e *TokenEnv) Apply(cc, sc *security.SecurityConfig) {
	if cc != nil {
		cc.Token = e.Token
	}
	if sc != nil {
		sc.TokenSigningKeyDir = filepath.Join(e.Dir, "keys")
		sc.TokenPoolSigningKeyFile = e.PoolFile
		sc.TrustDomain = e.Issuer
	}
}
