package kit

import (
	"fmt"
	"strings"

	"pgregory.net/rapid"
)

// ClassAd expression text generator (new-ClassAd syntax). It produces source
// text; callers parse it with the real ClassAd parser to build the sender's ad.

var adIdents = []string{"Cpus", "Memory", "name", "x", "Y_1", "RequestDisk", "Rank", "Owner", "aB", "Machine", "TARGET", "my_attr", "Z9"}
var adFuncs = []string{"strcat", "ifThenElse", "size", "toUpper", "int", "real", "string", "floor", "isUndefined", "member", "regexp", "substr", "pow", "quantize", "stringListMember", "max", "min"}
var binOps = []string{"+", "-", "*", "/", "%", "&&", "||", "==", "!=", "<", "<=", ">", ">=", "=?=", "=!=", "is", "isnt", "&", "|", "^", "<<", ">>"}
var unOps = []string{"-", "!", "~", "+"}

var stringPieces = []string{"a", "Z", " ", "hello world", `\"`, `\\`, `\n`, `\t`, "é", "日本", "𝄞", "=", "'", ";", ",", "[", "]", "{", "}", "(", ")", "#", "$$(x)", "%", "\\\\\\\"", "/tmp/FS_1", "TRUE", "1e5", "-", "\\001", "\\177", "@", "?", ":"}

// GenStringLit generates a quoted ClassAd string literal.
func GenStringLit(t *rapid.T) string {
	n := rapid.IntRange(0, 6).Draw(t, "strparts")
	var b strings.Builder
	b.WriteByte('"')
	for i := 0; i < n; i++ {
		b.WriteString(rapid.SampledFrom(stringPieces).Draw(t, "strpiece"))
	}
	b.WriteByte('"')
	return b.String()
}

// GenLiteral generates a literal of any type.
func GenLiteral(t *rapid.T) string {
	switch rapid.IntRange(0, 11).Draw(t, "lit") {
	case 0:
		return rapid.SampledFrom([]string{"0", "1", "7", "42", "2147483647", "2147483648", "4294967296", "9223372036854775807", "123456789012"}).Draw(t, "int")
	case 1:
		return fmt.Sprintf("%d", rapid.Int64Range(-1000000, 1000000).Draw(t, "rint"))
	case 2:
		return rapid.SampledFrom([]string{"0.0", "1.5", "3.14159", "1e10", "1.0E-5", "2.5e+3", "1.7976931348623157e308", "5e-324", "0.1", "100.0", "1e0", "6.02e23"}).Draw(t, "real")
	case 3:
		return fmt.Sprintf("%g", rapid.Float64Range(-1e6, 1e6).Draw(t, "rreal"))
	case 4:
		return rapid.SampledFrom([]string{"true", "false", "TRUE", "FALSE", "True", "fAlSe"}).Draw(t, "bool")
	case 5:
		return rapid.SampledFrom([]string{"undefined", "error", "UNDEFINED", "Error"}).Draw(t, "special")
	default:
		return GenStringLit(t)
	}
}

// GenExpr generates expression source text of bounded depth.
func GenExpr(t *rapid.T, depth int) string {
	if depth <= 0 {
		if rapid.IntRange(0, 3).Draw(t, "leaf") == 0 {
			id := rapid.SampledFrom(adIdents).Draw(t, "ident")
			switch rapid.IntRange(0, 5).Draw(t, "scope") {
			case 0:
				return "MY." + id
			case 1:
				return "TARGET." + id
			}
			return id
		}
		return GenLiteral(t)
	}
	switch rapid.IntRange(0, 11).Draw(t, "node") {
	case 0, 1, 2:
		return GenExpr(t, depth-1) + " " + rapid.SampledFrom(binOps).Draw(t, "binop") + " " + GenExpr(t, depth-1)
	case 3:
		return rapid.SampledFrom(unOps).Draw(t, "unop") + GenExpr(t, depth-1)
	case 4:
		return GenExpr(t, depth-1) + " ? " + GenExpr(t, depth-1) + " : " + GenExpr(t, depth-1)
	case 5, 6:
		n := rapid.IntRange(0, 3).Draw(t, "nargs")
		var args []string
		for i := 0; i < n; i++ {
			args = append(args, GenExpr(t, depth-1))
		}
		return rapid.SampledFrom(adFuncs).Draw(t, "func") + "(" + strings.Join(args, ", ") + ")"
	case 7:
		n := rapid.IntRange(0, 3).Draw(t, "nelems")
		var el []string
		for i := 0; i < n; i++ {
			el = append(el, GenExpr(t, depth-1))
		}
		return "{" + strings.Join(el, ", ") + "}"
	case 8:
		n := rapid.IntRange(0, 2).Draw(t, "nattrs")
		var at []string
		for i := 0; i < n; i++ {
			at = append(at, fmt.Sprintf("%s%d = %s", rapid.SampledFrom(adIdents).Draw(t, "nname"), i, GenExpr(t, depth-1)))
		}
		return "[" + strings.Join(at, "; ") + "]"
	case 9:
		return "(" + GenExpr(t, depth-1) + ")"
	case 10:
		return GenExpr(t, depth-1) + "[" + GenLiteral(t) + "]"
	default:
		return GenExpr(t, 0)
	}
}
