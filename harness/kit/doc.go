// Package kit holds the shared, independently written machinery of the
// verification harness: in-memory connections, the reference CEDAR frame /
// AES-GCM codec, evidence collection and small helpers.
package kit
