package kit

import (
	"crypto/hmac"
	"crypto/sha1"
	"crypto/sha256"
	"io"

	"golang.org/x/crypto/hkdf"
)

// Reference AKEP2 (HTCondor TOKEN / IDTOKENS authentication), written from the
// protocol description:
//   K  = HKDF-SHA256(ikm = JWT signature, salt = seedKA || token, info = "master ka"), 32 bytes
//   K' = HKDF-SHA256(ikm = JWT signature, salt = seedKB || token, info = "master kb"), 32 bytes
//   step 2 proof (server): HMAC-SHA1(K, A || ' ' || B || 0x00 || RA || RB)
//   step 3 proof (client): HMAC-SHA1(K, A || 0x00 || RB)
// where token is the "header.payload" text that travels and A, B are the client
// and server identities.

type AKEP2Keys struct{ K, KP []byte }

func RefAKEP2Keys(sig []byte, token string) AKEP2Keys {
	mk := func(seed [256]byte, info string) []byte {
		salt := append(append([]byte(nil), seed[:]...), token...)
		k := make([]byte, 32)
		_, _ = io.ReadFull(hkdf.New(sha256.New, sig, salt, []byte(info)), k)
		return k
	}
	return AKEP2Keys{K: mk(akep2SeedKA, "master ka"), KP: mk(akep2SeedKB, "master kb")}
}

func (k AKEP2Keys) ServerProof(a, b string, ra, rb []byte) []byte {
	h := hmac.New(sha1.New, k.K)
	h.Write([]byte(a))
	h.Write([]byte{' '})
	h.Write([]byte(b))
	h.Write([]byte{0})
	h.Write(ra)
	h.Write(rb)
	return h.Sum(nil)
}

func (k AKEP2Keys) ClientProof(a string, rb []byte) []byte {
	h := hmac.New(sha1.New, k.K)
	h.Write([]byte(a))
	h.Write([]byte{0})
	h.Write(rb)
	return h.Sum(nil)
}
