package kit

import (
	"fmt"
	"os"
	"regexp"
	"runtime"
	"strings"
	"sync"
	"sync/atomic"
	"time"
)

// Wedge watch: a deadlock inside the code under test does not fail a test, it hangs it. Tests that exercise
// shared state call Current(case) at the start of every case; a watcher goroutine notices when no case has
// started or finished for `quiet`, and then looks at the goroutine dump: if goroutines sit in a sync lock
// acquisition below a frame of the code under test, and the SAME goroutines still sit there in a second dump
// taken `confirm` later with no case boundary in between, the process is wedged on that lock. That is reported
// as a violation (with the case that was running and the stacks) and the process exits 1. A process that is
// merely slow shows no goroutine parked on a cedar lock in two dumps that far apart (the critical sections are
// microseconds long), so slowness never trips it; it is left to the ordinary time-outs (= inconclusive).

var (
	beat       atomic.Int64
	curMu      sync.Mutex
	curCase    any
	wedgeOnce  sync.Once
	goroutineH = regexp.MustCompile(`^goroutine (\d+) \[([^\]]*)\]:`)
)

// Current records the case that is about to run (nil at the end of a case) and counts as a sign of life.
func Current(c any) {
	curMu.Lock()
	curCase = c
	curMu.Unlock()
	beat.Add(1)
}

// Beat is a sign of life without a case change.
func Beat() { beat.Add(1) }

// blockedOnLocks returns, per goroutine id, the stack of every goroutine parked in a lock acquisition with a
// frame of the package fragment frag on its stack.
func blockedOnLocks(frag string) map[string]string {
	buf := make([]byte, 8<<20)
	n := runtime.Stack(buf, true)
	out := map[string]string{}
	for _, blk := range strings.Split(string(buf[:n]), "\n\n") {
		m := goroutineH.FindStringSubmatch(blk)
		if m == nil {
			continue
		}
		st := m[2]
		if !(strings.Contains(st, "sync.") || strings.Contains(st, "semacquire")) || strings.Contains(st, "WaitGroup") || strings.Contains(st, "Cond") {
			continue
		}
		if !strings.Contains(blk, frag) {
			continue
		}
		// the innermost non-runtime, non-sync frame must belong to the code under test (a harness goroutine
		// waiting on a harness lock while cedar code sits higher up its stack is not cedar's lock)
		lines := strings.Split(blk, "\n")
		owner := ""
		for i := 1; i < len(lines); i += 2 {
			fn := strings.TrimSpace(lines[i])
			if strings.HasPrefix(fn, "runtime.") || strings.HasPrefix(fn, "sync.") || strings.HasPrefix(fn, "internal/") {
				continue
			}
			owner = fn
			break
		}
		if strings.Contains(owner, frag) {
			out[m[1]] = blk
		}
	}
	return out
}

// StartWedgeWatch starts the watcher (once per process).
func StartWedgeWatch(id, frag string, quiet, confirm time.Duration) {
	wedgeOnce.Do(func() {
		go func() {
			last, since := beat.Load(), time.Now()
			for {
				time.Sleep(2 * time.Second)
				if b := beat.Load(); b != last {
					last, since = b, time.Now()
					continue
				}
				if time.Since(since) < quiet {
					continue
				}
				first := blockedOnLocks(frag)
				if len(first) == 0 {
					continue
				}
				time.Sleep(confirm)
				if beat.Load() != last {
					continue
				}
				second := blockedOnLocks(frag)
				var stuck []string
				for g, blk := range second {
					if _, ok := first[g]; ok {
						stuck = append(stuck, blk)
					}
				}
				if len(stuck) == 0 {
					continue
				}
				curMu.Lock()
				c := curCase
				curMu.Unlock()
				if len(stuck) > 6 {
					stuck = stuck[:6]
				}
				what := fmt.Sprintf("wedged: %d goroutine(s) have been parked on a lock inside %s for more than %v with no case finishing; operations on the shared state never return", len(stuck), frag, quiet+confirm)
				Violation(id, what, map[string]any{"wedged": true, "running": c, "stacks": stuck})
				fmt.Printf("--- FAIL: %s violated: %s\n%s\n", id, what, strings.Join(stuck, "\n\n"))
				FlushAndExit(1)
			}
		}()
	})
}

// FlushAndExit writes the evidence gathered so far and ends the process: for violations after which the process
// cannot usefully go on (a goroutine of the code under test that spins or is wedged cannot be stopped).
func FlushAndExit(code int) {
	evMu.Lock()
	for _, e := range evAll {
		e.flush()
	}
	evMu.Unlock()
	os.Exit(code)
}
