package kit

import (
	"context"
	"crypto/ecdh"
	"crypto/rand"
	"crypto/sha256"
	"encoding/base64"
	"fmt"
	"io"
	"os"
	"strings"
	"time"

	"github.com/PelicanPlatform/classad/classad"
	"github.com/bbockelm/cedar/commands"
	"github.com/bbockelm/cedar/message"
	"github.com/bbockelm/cedar/stream"
	"golang.org/x/crypto/hkdf"
)

// Scripted handshake peers. They speak the cleartext CEDAR security handshake
// (ad exchange, method bitmask loop, CLAIMTOBE / FS sub-protocols, key-exchange
// message, post-auth ad, resumption request/reply) and can deviate from it in
// the ways the C03/C05/C06 catalogues name. cedar's message/stream packages are
// used only as a codec; everything a peer observes is recorded in PeerLog and is
// the ground truth ("what really ran") for the oracles.

const (
	BitClaimToBe = 2
	BitFS        = 4
	BitToken     = 2048
	BitSSL       = 256
	BitPassword  = 512
)

// KeyMode says what the peer does with its ECDH public key.
type KeyMode int

const (
	KeyHonest    KeyMode = iota
	KeyOmit              // no ECDHPublicKey attribute
	KeyTruncated         // valid base64 of a truncated point
	KeyRandom            // 65 random bytes starting with 0x04 (not on the curve)
	KeyGarbage           // not base64 at all
)

// PeerOpts selects the peer's behaviour.
type PeerOpts struct {
	// what the peer advertises
	AuthMethods   string // comma list, e.g. "CLAIMTOBE,FS"
	CryptoMethods string // e.g. "AES", "BLOWFISH", ""
	// scripted server: the decisions it announces
	SayAuth string // "YES" / "NO" (server) ; level name (client)
	SayEnc  string
	Key     KeyMode
	// scripted server: which bit it selects from the client's bitmask.
	// 0 = honest (first of its own methods present in the mask); otherwise this value is sent as is.
	SelectBits int
	// scripted server: it answers the client's bitmask with ZERO bits ("none of your methods") and then carries on as
	// if an authentication had completed (key-exchange message, AUTHORIZED post-auth ad)
	SelectZero bool
	// scripted client: the bitmask it sends; 0 = honest (bits of its own methods)
	SendBits int
	// scripted client: when the server wants authentication it answers with a zero bitmask ("no methods left")
	// and then carries on with the rest of the handshake as if nothing had happened
	GiveUp bool
	// scripted server post-auth behaviour
	PostAuthReturnCode string // default AUTHORIZED
	PostAuthInClear    bool
	PostAuthSecretAttr bool // one attribute of the post-auth ad travels in the private-attribute (secret marker) form
	PostAuthUser       string
	PostAuthSid        string
	ValidCommands      string
	// claimed identity for CLAIMTOBE (scripted client)
	ClaimUser string
	Command   int
	// resumption (scripted client)
	ResumeSid      string
	ResumeKey      []byte // key the requester holds (nil: none)
	ResumeResponse bool
	// ResumeExtra: attributes added to (or replacing those of) the resumption request ad; a nil value removes one.
	ResumeExtra map[string]any
	// resumption (scripted server)
	ResumeReply string // "AUTHORIZED", "SID_NOT_FOUND", "GARBAGE", "CLOSE", "DENIED"
	// FS sub-protocol
	FSPath     *string      // scripted server: the path it announces (nil: a fresh honest /tmp/FS_xxx)
	FSInspect  func(clientResult int) // scripted server: called after the client's result arrived, before the verdict is sent
	FSVerdict  *int         // scripted server: verdict to send (nil: honest check); -99 = close without answering
	FSLeave    func(path string) int // scripted client: what it leaves at the announced path; returns the result it reports
	// TOKEN (AKEP2) sub-protocol
	TokenText    string // scripted client: the "header.payload" text it presents
	TokenSig     []byte // scripted client: the signature it knows (nil: it does not know one and sends a random proof)
	TokenClaimID string // scripted client: the identity it claims in step 1
	TokenRawKey  []byte // scripted server: the signing key it holds (nil: it holds none and sends a random proof)
	TokenPool    bool   // scripted server: TokenRawKey is the pool key
}

// PeerLog is what the scripted peer observed.
type PeerLog struct {
	PeerAd          *classad.ClassAd
	Steps           []string
	AuthCompleted   string // method whose sub-protocol ran to successful completion, "" if none
	BitmaskReceived int
	BitmaskSent     int
	Key             []byte // key the peer derived (nil if none)
	PostAuthAd      *classad.ClassAd
	ResumeRequested string
	Err             error
	// TOKEN sub-protocol observations
	TokenReceived   string // scripted server: token text received
	TokenClaimedID  string // scripted server: identity claimed in step 1
	PeerProofOK     bool   // the peer's proof matched the reference AKEP2 computation
	PeerProofSeen   bool
	// FS sub-protocol observations
	FSPathSeen     string // scripted client: path announced by the server
	FSClientResult int    // scripted server: result the client reported
	FSResultSeen   bool
	FSServerResult int    // scripted client: verdict received
}

func (l *PeerLog) step(f string, a ...any) { l.Steps = append(l.Steps, fmt.Sprintf(f, a...)) }

type peerKey struct {
	priv *ecdh.PrivateKey
	b64  string
}

func newPeerKey(mode KeyMode) peerKey {
	priv, _ := ecdh.P256().GenerateKey(rand.Reader)
	pub := priv.PublicKey().Bytes()
	k := peerKey{priv: priv}
	switch mode {
	case KeyHonest:
		k.b64 = base64.StdEncoding.EncodeToString(pub)
	case KeyOmit:
		k.b64 = ""
	case KeyTruncated:
		k.b64 = base64.StdEncoding.EncodeToString(pub[:40])
	case KeyRandom:
		r := make([]byte, 65)
		_, _ = rand.Read(r)
		r[0] = 4
		k.b64 = base64.StdEncoding.EncodeToString(r)
	case KeyGarbage:
		k.b64 = "!!!not-base64!!!"
	}
	return k
}

// DeriveSessionKey is the reference key agreement: ECDH P-256, then
// HKDF-SHA256(salt "htcondor", info "keygen"), 32 bytes.
func DeriveSessionKey(priv *ecdh.PrivateKey, peerB64 string) ([]byte, error) {
	raw, err := base64.StdEncoding.DecodeString(peerB64)
	if err != nil {
		return nil, err
	}
	pub, err := ecdh.P256().NewPublicKey(raw)
	if err != nil {
		return nil, err
	}
	secret, err := priv.ECDH(pub)
	if err != nil {
		return nil, err
	}
	k := make([]byte, 32)
	if _, err := io.ReadFull(hkdf.New(sha256.New, secret, []byte("htcondor"), []byte("keygen")), k); err != nil {
		return nil, err
	}
	return k, nil
}

func bitsOf(methods string) int {
	b := 0
	for _, m := range strings.Split(methods, ",") {
		switch strings.TrimSpace(m) {
		case "CLAIMTOBE":
			b |= BitClaimToBe
		case "FS":
			b |= BitFS
		case "TOKEN":
			b |= BitToken
		case "SSL":
			b |= BitSSL
		case "PASSWORD":
			b |= BitPassword
		}
	}
	return b
}

func adString(ad *classad.ClassAd, n string) string {
	s, _ := ad.EvaluateAttrString(n)
	return s
}

func sendAd(ctx context.Context, s *stream.Stream, pre func(*message.Message) error, ad *classad.ClassAd) error {
	m := message.NewMessageForStream(s)
	if pre != nil {
		if err := pre(m); err != nil {
			return err
		}
	}
	if err := m.PutClassAd(ctx, ad); err != nil {
		return err
	}
	return m.FinishMessage(ctx)
}

func sendInts(ctx context.Context, s *stream.Stream, vals ...int) error {
	m := message.NewMessageForStream(s)
	for _, v := range vals {
		if err := m.PutInt(ctx, v); err != nil {
			return err
		}
	}
	return m.FinishMessage(ctx)
}

func recvInt(ctx context.Context, s *stream.Stream) (int, error) {
	return message.NewMessageFromStream(s).GetInt(ctx)
}

// ScriptedServer plays the server side of one handshake on conn.
func ScriptedServer(conn *BufConn, o PeerOpts, limit time.Duration) (log *PeerLog, st *stream.Stream) {
	log = &PeerLog{}
	ctx, cancel := context.WithTimeout(context.Background(), limit)
	defer cancel()
	s := stream.NewStream(conn)
	st = s
	fail := func(err error) (*PeerLog, *stream.Stream) {
		log.Err = err
		_ = conn.Close()
		return log, s
	}
	m := message.NewMessageFromStream(s)
	cmd, err := m.GetInt(ctx)
	if err != nil {
		return fail(err)
	}
	if cmd != commands.DC_AUTHENTICATE {
		return fail(fmt.Errorf("peer: unexpected command %d", cmd))
	}
	cad, err := m.GetClassAd(ctx)
	if err != nil {
		return fail(err)
	}
	log.PeerAd = cad
	log.step("client ad received")
	if adString(cad, "UseSession") == "YES" {
		sid := adString(cad, "Sid")
		log.ResumeRequested = sid
		log.step("resumption requested for %s", sid)
		want, _ := cad.EvaluateAttrBool("ResumeResponse")
		reply := o.ResumeReply
		if reply == "" {
			reply = "AUTHORIZED"
		}
		switch reply {
		case "CLOSE":
			return fail(fmt.Errorf("peer: closing on resumption request"))
		case "GARBAGE":
			_, _ = conn.Write([]byte{1, 0, 0, 0, 9, 'g', 'a', 'r', 'b', 'a', 'g', 'e', '!', '!'})
			return fail(fmt.Errorf("peer: sent garbage"))
		}
		if want {
			ra := classad.New()
			_ = ra.Set("ReturnCode", reply)
			if reply == "AUTHORIZED" {
				_ = ra.Set("Sid", sid)
			}
			if err := sendAd(ctx, s, nil, ra); err != nil {
				return fail(err)
			}
		}
		if reply == "AUTHORIZED" && o.ResumeKey != nil {
			_ = s.SetSymmetricKey(o.ResumeKey)
			log.Key = o.ResumeKey
		}
		return log, s
	}
	key := newPeerKey(o.Key)
	sad := classad.New()
	first := strings.Split(o.AuthMethods, ",")[0]
	_ = sad.Set("AuthMethods", first)
	_ = sad.Set("AuthMethodsList", o.AuthMethods)
	_ = sad.Set("CryptoMethods", o.CryptoMethods)
	_ = sad.Set("CryptoMethodsList", o.CryptoMethods)
	_ = sad.Set("Authentication", o.SayAuth)
	_ = sad.Set("Encryption", o.SayEnc)
	_ = sad.Set("Integrity", "NO")
	_ = sad.Set("RemoteVersion", "$CondorVersion: 25.4.0 2025-10-31 BuildID: 1 $")
	_ = sad.Set("TrustDomain", "verif.test")
	if key.b64 != "" {
		_ = sad.Set("ECDHPublicKey", key.b64)
	}
	_ = sad.Set("NegotiatedSession", true)
	_ = sad.Set("Enact", "YES")
	if err := sendAd(ctx, s, nil, sad); err != nil {
		return fail(err)
	}
	log.step("server ad sent auth=%s enc=%s", o.SayAuth, o.SayEnc)
	if o.SayAuth == "YES" {
		for round := 0; round < 6 && log.AuthCompleted == ""; round++ {
			mask, err := recvInt(ctx, s)
			if err != nil {
				return fail(err)
			}
			log.BitmaskReceived = mask
			log.step("client bitmask %d", mask)
			if mask == 0 {
				return fail(fmt.Errorf("peer: client gave up"))
			}
			if o.SelectZero {
				log.BitmaskSent = 0
				if err := sendInts(ctx, s, 0); err != nil {
					return fail(err)
				}
				log.step("selected 0 and carries on")
				break
			}
			sel := o.SelectBits
			if sel == 0 {
				for _, b := range []int{BitClaimToBe, BitFS, BitToken} {
					if bitsOf(o.AuthMethods)&b != 0 && mask&b != 0 {
						sel = b
						break
					}
				}
			} else if round > 0 {
				sel = 0 // a deviating selection is tried once
			}
			log.BitmaskSent = sel
			if err := sendInts(ctx, s, sel); err != nil {
				return fail(err)
			}
			log.step("selected %d", sel)
			switch sel {
			case BitClaimToBe:
				cm := message.NewMessageFromStream(s)
				status, err := cm.GetInt(ctx)
				if err != nil {
					return fail(err)
				}
				if status != 1 {
					log.step("claimtobe: client status %d", status)
					continue
				}
				user, err := cm.GetString(ctx)
				if err != nil {
					return fail(err)
				}
				if err := sendInts(ctx, s, 1); err != nil {
					return fail(err)
				}
				log.AuthCompleted = "CLAIMTOBE"
				log.step("claimtobe completed for %s", user)
			case BitFS:
				var dir string
				if o.FSPath != nil {
					dir = *o.FSPath
				} else {
					d, err := os.MkdirTemp("/tmp", "FS_")
					if err != nil {
						return fail(err)
					}
					_ = os.Remove(d)
					dir = d
				}
				pm := message.NewMessageForStream(s)
				_ = pm.PutString(ctx, dir)
				if err := pm.FinishMessage(ctx); err != nil {
					return fail(err)
				}
				res, err := recvInt(ctx, s)
				if err != nil {
					return fail(err)
				}
				log.FSClientResult, log.FSResultSeen = res, true
				if o.FSInspect != nil {
					o.FSInspect(res)
				}
				ok := -1
				if res == 0 {
					if fi, err := os.Lstat(dir); err == nil && fi.IsDir() {
						ok = 0
					}
				}
				if o.FSVerdict != nil {
					ok = *o.FSVerdict
					if ok == -99 {
						return fail(fmt.Errorf("peer: closing instead of sending the FS verdict"))
					}
				}
				if err := sendInts(ctx, s, ok); err != nil {
					return fail(err)
				}
				if ok == 0 {
					log.AuthCompleted = "FS"
					log.step("fs completed")
				}
			case BitToken:
				tm := message.NewMessageFromStream(s)
				status, err := tm.GetInt(ctx)
				if err != nil {
					return fail(err)
				}
				alen, _ := tm.GetInt(ctx)
				a, _ := tm.GetString(ctx)
				tok, _ := tm.GetString(ctx)
				ralen, _ := tm.GetInt(ctx)
				ra, err := tm.GetBytes(ctx, ralen)
				if err != nil && ralen > 0 {
					return fail(err)
				}
				_ = alen
				log.TokenReceived, log.TokenClaimedID = tok, a
				log.step("token step 1: status %d id %q token %d bytes", status, a, len(tok))
				rb := make([]byte, 256)
				_, _ = rand.Read(rb)
				b := "server@verif.test"
				var keys AKEP2Keys
				proof := make([]byte, 20)
				_, _ = rand.Read(proof)
				if o.TokenRawKey != nil {
					_, sig := RefSignParts(o.TokenRawKey, o.TokenPool, strings.SplitN(tok+".", ".", 3)[0], strings.SplitN(tok+".", ".", 3)[1])
					keys = RefAKEP2Keys(sig, tok)
					proof = keys.ServerProof(a, b, ra, rb)
				}
				sm := message.NewMessageForStream(s)
				_ = sm.PutInt(ctx, 0)
				_ = sm.PutInt(ctx, len(a))
				_ = sm.PutString(ctx, a)
				_ = sm.PutInt(ctx, len(b))
				_ = sm.PutString(ctx, b)
				_ = sm.PutInt(ctx, len(ra))
				_ = sm.PutBytes(ctx, ra)
				_ = sm.PutInt(ctx, len(rb))
				_ = sm.PutBytes(ctx, rb)
				_ = sm.PutInt(ctx, len(proof))
				_ = sm.PutBytes(ctx, proof)
				if err := sm.FinishMessage(ctx); err != nil {
					return fail(err)
				}
				cm := message.NewMessageFromStream(s)
				st3, err := cm.GetInt(ctx)
				if err != nil {
					return fail(err)
				}
				_, _ = cm.GetInt(ctx)
				a3, _ := cm.GetString(ctx)
				rblen, _ := cm.GetInt(ctx)
				rbEcho, _ := cm.GetBytes(ctx, rblen)
				maclen, _ := cm.GetInt(ctx)
				mac, _ := cm.GetBytes(ctx, maclen)
				log.PeerProofSeen = true
				log.PeerProofOK = o.TokenRawKey != nil && st3 == 0 && a3 == a && string(rbEcho) == string(rb) && string(mac) == string(keys.ClientProof(a, rb))
				log.step("token step 3: status %d proof ok %v", st3, log.PeerProofOK)
				if st3 != 0 {
					continue
				}
				log.AuthCompleted = "TOKEN"
			case 0:
				continue
			default:
				// a bit the peer cannot perform: wait for whatever the client does next
				log.step("deviating selection %d sent", sel)
				continue
			}
		}
		if log.AuthCompleted == "" && !o.SelectZero {
			return fail(fmt.Errorf("peer: no authentication completed"))
		}
		if err := sendInts(ctx, s, 0); err != nil { // key exchange message: no key
			return fail(err)
		}
		log.step("key exchange message sent")
	}
	// key agreement
	if o.Key == KeyHonest && strings.Contains(o.CryptoMethods, "AES") {
		if ck := adString(cad, "ECDHPublicKey"); ck != "" && strings.Contains(adString(cad, "CryptoMethods"), "AES") {
			if k, err := DeriveSessionKey(key.priv, ck); err == nil {
				log.Key = k
			}
		}
	}
	pa := classad.New()
	rc := o.PostAuthReturnCode
	if rc == "" {
		rc = "AUTHORIZED"
	}
	_ = pa.Set("ReturnCode", rc)
	sid := o.PostAuthSid
	if sid == "" {
		sid = fmt.Sprintf("scripted:%d:%d:1", os.Getpid(), time.Now().UnixNano())
	}
	_ = pa.Set("Sid", sid)
	user := o.PostAuthUser
	if user == "" {
		user = "scripted@verif.test"
	}
	_ = pa.Set("User", user)
	vc := o.ValidCommands
	if vc == "" {
		vc = "60011"
	}
	_ = pa.Set("ValidCommands", vc)
	_ = pa.Set("SessionDuration", 3600)
	_ = pa.Set("SessionLease", 1800)
	log.PostAuthAd = pa
	if log.Key != nil && !o.PostAuthInClear {
		_ = s.SetSymmetricKey(log.Key)
	}
	if o.PostAuthSecretAttr {
		// written by hand: the ad's expressions, one of them as SECRET_MARKER + secret (which an honest
		// cedar sender only does on a keyed-but-cleartext channel, but a receiver must take in its stride)
		m := message.NewMessageForStream(s)
		attrs := pa.GetAttributes()
		if err := m.PutInt(ctx, len(attrs)+1); err != nil {
			return fail(err)
		}
		for _, a := range attrs {
			e, _ := pa.Lookup(a)
			if err := m.PutString(ctx, a+" = "+e.String()); err != nil {
				return fail(err)
			}
		}
		_ = m.PutString(ctx, "ZKM")
		_ = m.PutString(ctx, `PeerNote = "for-your-eyes-only"`)
		_ = m.PutString(ctx, "")
		_ = m.PutString(ctx, "")
		if err := m.FinishMessage(ctx); err != nil {
			return fail(err)
		}
	} else if err := sendAd(ctx, s, nil, pa); err != nil {
		return fail(err)
	}
	if log.Key != nil && o.PostAuthInClear {
		_ = s.SetSymmetricKey(log.Key)
	}
	log.step("post-auth ad sent (rc=%s, clear=%v)", rc, o.PostAuthInClear || log.Key == nil)
	return log, s
}

// ScriptedClient plays the client side of one handshake on conn.
func ScriptedClient(conn *BufConn, o PeerOpts, limit time.Duration) (log *PeerLog, st *stream.Stream) {
	log = &PeerLog{}
	ctx, cancel := context.WithTimeout(context.Background(), limit)
	defer cancel()
	s := stream.NewStream(conn)
	st = s
	fail := func(err error) (*PeerLog, *stream.Stream) {
		log.Err = err
		_ = conn.Close()
		return log, s
	}
	putCmd := func(m *message.Message) error { return m.PutInt(ctx, commands.DC_AUTHENTICATE) }
	if o.ResumeSid != "" {
		ra := classad.New()
		_ = ra.Set("Command", o.Command)
		_ = ra.Set("UseSession", "YES")
		_ = ra.Set("Sid", o.ResumeSid)
		_ = ra.Set("ResumeResponse", o.ResumeResponse)
		_ = ra.Set("RemoteVersion", "$CondorVersion: 25.4.0 2025-10-31 BuildID: 1 $")
		_ = ra.Set("CryptoMethods", "AES")
		for k, v := range o.ResumeExtra {
			if v == nil {
				ra.Delete(k)
			} else {
				_ = ra.Set(k, v)
			}
		}
		if err := sendAd(ctx, s, putCmd, ra); err != nil {
			return fail(err)
		}
		log.step("resumption request sent for %s (reply wanted: %v)", o.ResumeSid, o.ResumeResponse)
		if o.ResumeResponse {
			rep, err := message.NewMessageFromStream(s).GetClassAd(ctx)
			if err != nil {
				return fail(err)
			}
			log.PostAuthAd = rep
			log.step("resumption reply %s", adString(rep, "ReturnCode"))
		}
		if o.ResumeKey != nil {
			_ = s.SetSymmetricKey(o.ResumeKey)
			log.Key = o.ResumeKey
		}
		return log, s
	}
	key := newPeerKey(o.Key)
	cad := classad.New()
	_ = cad.Set("AuthMethods", o.AuthMethods)
	_ = cad.Set("CryptoMethods", o.CryptoMethods)
	_ = cad.Set("Authentication", o.SayAuth)
	_ = cad.Set("Encryption", o.SayEnc)
	_ = cad.Set("Integrity", "OPTIONAL")
	_ = cad.Set("Command", o.Command)
	_ = cad.Set("RemoteVersion", "$CondorVersion: 25.4.0 2025-10-31 BuildID: 1 $")
	if key.b64 != "" {
		_ = cad.Set("ECDHPublicKey", key.b64)
	}
	_ = cad.Set("NegotiatedSession", true)
	_ = cad.Set("NewSession", "YES")
	_ = cad.Set("OutgoingNegotiation", "PREFERRED")
	_ = cad.Set("Enact", "NO")
	if err := sendAd(ctx, s, putCmd, cad); err != nil {
		return fail(err)
	}
	log.step("client ad sent")
	sad, err := message.NewMessageFromStream(s).GetClassAd(ctx)
	if err != nil {
		return fail(err)
	}
	log.PeerAd = sad
	if rc := adString(sad, "ReturnCode"); rc != "" && rc != "AUTHORIZED" {
		log.step("negotiation denied: %s", rc)
		return fail(fmt.Errorf("peer: negotiation denied (%s)", rc))
	}
	log.step("server ad received auth=%s enc=%s", adString(sad, "Authentication"), adString(sad, "Encryption"))
	if adString(sad, "Authentication") == "YES" {
		mask := o.SendBits
		if mask == 0 {
			mask = bitsOf(o.AuthMethods)
		}
		if o.GiveUp {
			log.BitmaskSent = 0
			if err := sendInts(ctx, s, 0); err != nil {
				return fail(err)
			}
			log.step("gave up authentication (zero bitmask) and carries on")
		}
		for round := 0; round < 6 && log.AuthCompleted == "" && !o.GiveUp; round++ {
			log.BitmaskSent = mask
			if err := sendInts(ctx, s, mask); err != nil {
				return fail(err)
			}
			if mask == 0 {
				return fail(fmt.Errorf("peer: gave up"))
			}
			sel, err := recvInt(ctx, s)
			if err != nil {
				return fail(err)
			}
			log.BitmaskReceived = sel
			log.step("server selected %d from %d", sel, mask)
			switch sel {
			case BitClaimToBe:
				cm := message.NewMessageForStream(s)
				_ = cm.PutInt(ctx, 1)
				u := o.ClaimUser
				if u == "" {
					u = "mallory@verif.test"
				}
				_ = cm.PutString(ctx, u)
				if err := cm.FinishMessage(ctx); err != nil {
					return fail(err)
				}
				ack, err := recvInt(ctx, s)
				if err != nil {
					return fail(err)
				}
				if ack == 1 {
					log.AuthCompleted = "CLAIMTOBE"
				}
			case BitFS:
				pm := message.NewMessageFromStream(s)
				dir, err := pm.GetString(ctx)
				if err != nil {
					return fail(err)
				}
				res := -1
				log.FSPathSeen = dir
				if o.FSLeave != nil {
					res = o.FSLeave(dir)
				} else if strings.HasPrefix(dir, "/tmp/FS_") && os.Mkdir(dir, 0o700) == nil {
					res = 0
				}
				if err := sendInts(ctx, s, res); err != nil {
					return fail(err)
				}
				ok, err := recvInt(ctx, s)
				log.FSServerResult = ok
				if o.FSLeave == nil {
					_ = os.Remove(dir)
				}
				if err != nil {
					return fail(err)
				}
				if ok == 0 {
					log.AuthCompleted = "FS"
				}
			case BitToken:
				ra := make([]byte, 256)
				_, _ = rand.Read(ra)
				tm := message.NewMessageForStream(s)
				_ = tm.PutInt(ctx, 0)
				_ = tm.PutInt(ctx, len(o.TokenClaimID))
				_ = tm.PutString(ctx, o.TokenClaimID)
				_ = tm.PutString(ctx, o.TokenText)
				_ = tm.PutInt(ctx, len(ra))
				_ = tm.PutBytes(ctx, ra)
				if err := tm.FinishMessage(ctx); err != nil {
					return fail(err)
				}
				sm := message.NewMessageFromStream(s)
				st2, err := sm.GetInt(ctx)
				if err != nil {
					return fail(err)
				}
				_, _ = sm.GetInt(ctx)
				a2, _ := sm.GetString(ctx)
				_, _ = sm.GetInt(ctx)
				b2, _ := sm.GetString(ctx)
				n, _ := sm.GetInt(ctx)
				raEcho, _ := sm.GetBytes(ctx, n)
				n, _ = sm.GetInt(ctx)
				rb, _ := sm.GetBytes(ctx, n)
				n, _ = sm.GetInt(ctx)
				mac, _ := sm.GetBytes(ctx, n)
				log.step("token step 2: status %d id echo %q server id %q", st2, a2, b2)
				var keys AKEP2Keys
				proof := make([]byte, 20)
				_, _ = rand.Read(proof)
				if o.TokenSig != nil {
					keys = RefAKEP2Keys(o.TokenSig, o.TokenText)
					log.PeerProofSeen = true
					log.PeerProofOK = st2 == 0 && string(raEcho) == string(ra) && string(mac) == string(keys.ServerProof(a2, b2, ra, rb))
					proof = keys.ClientProof(a2, rb)
				}
				if st2 != 0 {
					a2, rb, proof = "", nil, nil
				}
				cm := message.NewMessageForStream(s)
				_ = cm.PutInt(ctx, 0)
				_ = cm.PutInt(ctx, len(a2))
				_ = cm.PutString(ctx, a2)
				_ = cm.PutInt(ctx, len(rb))
				_ = cm.PutBytes(ctx, rb)
				_ = cm.PutInt(ctx, len(proof))
				_ = cm.PutBytes(ctx, proof)
				if err := cm.FinishMessage(ctx); err != nil {
					return fail(err)
				}
				// A zero bitmask right behind step 3: a server that rejected the exchange reads it
				// ("client has no more methods") and returns at once instead of waiting; a server
				// that accepted never reads it during the handshake.
				_ = sendInts(ctx, s, 0)
				// the server continues with its key-exchange message only if it accepted
				if hk, err := recvInt(ctx, s); err == nil && hk == 0 {
					log.AuthCompleted = "TOKEN"
					log.step("server accepted the token exchange")
					goto authDone
				} else {
					return fail(fmt.Errorf("peer: server did not accept the token exchange (%v)", err))
				}
			case 0:
				return fail(fmt.Errorf("peer: server rejected all methods"))
			default:
				mask &^= sel
			}
			if log.AuthCompleted == "" {
				mask &^= sel
			}
		}
		if !o.GiveUp { // (a client that gave up expects no key-exchange message: that follows a completed method)
			if log.AuthCompleted == "" {
				return fail(fmt.Errorf("peer: no authentication completed"))
			}
			if hk, err := recvInt(ctx, s); err != nil || hk != 0 {
				return fail(fmt.Errorf("peer: key exchange message: %d %v", hk, err))
			}
		}
	authDone:
		log.step("authentication %s completed", log.AuthCompleted)
	}
	if o.Key == KeyHonest && strings.Contains(o.CryptoMethods, "AES") {
		if sk := adString(sad, "ECDHPublicKey"); sk != "" && strings.Contains(adString(sad, "CryptoMethods"), "AES") {
			if k, err := DeriveSessionKey(key.priv, sk); err == nil {
				log.Key = k
				_ = s.SetSymmetricKey(k)
			}
		}
	}
	pa, err := message.NewMessageFromStream(s).GetClassAd(ctx)
	if err != nil {
		return fail(fmt.Errorf("peer: post-auth ad: %w", err))
	}
	log.PostAuthAd = pa
	log.step("post-auth ad received rc=%s", adString(pa, "ReturnCode"))
	return log, s
}
