package kit

import (
	"encoding/binary"
	"math"
)

// Reference encoder for CEDAR typed values, written from the format
// description (HTCondor stream.cpp as summarised in the property text):
//   integers of every width : 8 bytes, big-endian, two's complement
//                             (signed types sign-extended, unsigned zero-extended)
//   double                  : int(frac * 2147483647) then int(exp), frac/exp = frexp(x)
//   char                    : 1 byte
//   string                  : bytes, NUL; on an encrypting stream preceded by the
//                             8-byte length of (bytes + NUL)

func RefInt64(v int64) []byte {
	var b [8]byte
	binary.BigEndian.PutUint64(b[:], uint64(v))
	return b[:]
}

// RefFrexp splits a finite float64 into frac in [0.5,1) (or 0) and exponent,
// working on the IEEE-754 bit pattern.
func RefFrexp(x float64) (float64, int) {
	bits := math.Float64bits(x)
	sign := bits >> 63
	exp := int((bits >> 52) & 0x7ff)
	man := bits & (1<<52 - 1)
	if exp == 0 && man == 0 {
		return x, 0 // +-0
	}
	e := 0
	if exp == 0 { // subnormal: normalise
		for man&(1<<52) == 0 {
			man <<= 1
			e--
		}
		man &= 1<<52 - 1
		exp = 1
	}
	e += exp - 1022
	fb := sign<<63 | uint64(1022)<<52 | man // same mantissa, exponent of [0.5,1)
	return math.Float64frombits(fb), e
}

func RefDouble(x float64) []byte {
	frac, exp := RefFrexp(x)
	fi := int32(frac * 2147483647.0) // C-style truncation toward zero
	out := append([]byte(nil), RefInt64(int64(fi))...)
	return append(out, RefInt64(int64(int32(exp)))...)
}

func RefString(s string, encrypted bool) []byte {
	var out []byte
	if encrypted {
		out = append(out, RefInt64(int64(len(s)+1))...)
	}
	out = append(out, s...)
	return append(out, 0)
}
