package kit

import (
	"testing"
	"time"

	"github.com/bbockelm/cedar/security"
)

func TestHandshakeHelper(t *testing.T) {
	for _, m := range [][]security.AuthMethod{{security.AuthClaimToBe}, {security.AuthFS}} {
		c := BaseConfig(security.SecurityRequired, security.SecurityRequired, m...)
		s := BaseConfig(security.SecurityRequired, security.SecurityRequired, m...)
		r := Handshake(c, s, 5*time.Second)
		if r.CErr != nil || r.SErr != nil {
			t.Fatalf("%v: cerr=%v serr=%v", m, r.CErr, r.SErr)
		}
		t.Logf("%v: client auth=%v enc=%v method=%s user=%q sid=%s; server auth=%v enc=%v user=%q; frames c->s %d s->c %d",
			m, r.CNeg.Authentication, r.CNeg.Encryption, r.CNeg.NegotiatedAuth, r.CNeg.User, r.CNeg.SessionId,
			r.SNeg.Authentication, r.SNeg.Encryption, r.SNeg.User, len(r.CConn.Written()), len(r.SConn.Written()))
		if err := r.CStream.SendMessage(Bg, []byte("probe")); err != nil {
			t.Fatal(err)
		}
		got, err := r.SStream.ReceiveCompleteMessage(Bg)
		if err != nil || string(got) != "probe" {
			t.Fatalf("probe: %q %v", got, err)
		}
	}
}
