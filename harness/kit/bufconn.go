package kit

import (
	"io"
	"net"
	"sync"
	"time"
)

// BufConn is one end of an in-memory, buffered, blocking duplex connection:
// Write never blocks, Read blocks until data arrives or either end is closed.
// Every Write is recorded (cedar writes exactly one frame per Write), which is
// the "wire tap" used as ground truth by the handshake properties.
type BufConn struct {
	mu      *sync.Mutex
	cond    *sync.Cond
	in      *[]byte // bytes waiting to be read by this end
	out     *[]byte // peer's in
	closedR *bool   // this end closed
	closedW *bool   // peer end closed
	local   net.Addr
	remote  net.Addr

	// OnWrite, if set, runs (outside the lock) before the i-th Write of this end: a hook for doing something
	// exactly while the endpoint is in the middle of an exchange
	OnWrite func(i int)

	tapMu     sync.Mutex
	WriteLog  [][]byte // every Write of this end, in order
	ReadCalls int
	WriteCalls int
	CloseCalls int
}

// NewBufPipe returns the two ends of a connection. Addresses look like TCP
// loopback endpoints with the given ports.
func NewBufPipe(portA, portB int) (*BufConn, *BufConn) {
	return NewBufPipeIP(net.IPv4(127, 0, 0, 1), portA, net.IPv4(127, 0, 0, 1), portB)
}

// NewBufPipeIP is NewBufPipe with chosen endpoint addresses (IPv4 or IPv6).
func NewBufPipeIP(ipA net.IP, portA int, ipB net.IP, portB int) (*BufConn, *BufConn) {
	mu := &sync.Mutex{}
	cond := sync.NewCond(mu)
	var ab, ba []byte
	var ca, cb bool
	aAddr := &net.TCPAddr{IP: ipA, Port: portA}
	bAddr := &net.TCPAddr{IP: ipB, Port: portB}
	a := &BufConn{mu: mu, cond: cond, in: &ba, out: &ab, closedR: &ca, closedW: &cb, local: aAddr, remote: bAddr}
	b := &BufConn{mu: mu, cond: cond, in: &ab, out: &ba, closedR: &cb, closedW: &ca, local: bAddr, remote: aAddr}
	return a, b
}

func (c *BufConn) Read(p []byte) (int, error) {
	c.mu.Lock()
	defer c.mu.Unlock()
	c.ReadCalls++
	for len(*c.in) == 0 {
		if *c.closedR {
			return 0, net.ErrClosed
		}
		if *c.closedW {
			return 0, io.EOF
		}
		c.cond.Wait()
	}
	n := copy(p, *c.in)
	*c.in = (*c.in)[n:]
	return n, nil
}

func (c *BufConn) Write(p []byte) (int, error) {
	if c.OnWrite != nil {
		c.mu.Lock()
		i := c.WriteCalls
		c.mu.Unlock()
		c.OnWrite(i)
	}
	c.mu.Lock()
	c.WriteCalls++
	if *c.closedR {
		c.mu.Unlock()
		return 0, net.ErrClosed
	}
	if *c.closedW {
		c.mu.Unlock()
		return 0, io.ErrClosedPipe
	}
	*c.out = append(*c.out, p...)
	c.cond.Broadcast()
	c.mu.Unlock()
	c.tapMu.Lock()
	c.WriteLog = append(c.WriteLog, append([]byte(nil), p...))
	c.tapMu.Unlock()
	return len(p), nil
}

func (c *BufConn) Close() error {
	c.mu.Lock()
	c.CloseCalls++
	*c.closedR = true
	c.cond.Broadcast()
	c.mu.Unlock()
	return nil
}

// IsClosed reports whether this end has been closed.
func (c *BufConn) IsClosed() bool {
	c.mu.Lock()
	defer c.mu.Unlock()
	return *c.closedR
}

// Written returns a copy of the write log.
func (c *BufConn) Written() [][]byte {
	c.tapMu.Lock()
	defer c.tapMu.Unlock()
	return append([][]byte(nil), c.WriteLog...)
}

// Inject appends bytes to this end's read side as if the peer had written them.
func (c *BufConn) Inject(p []byte) {
	c.mu.Lock()
	*c.in = append(*c.in, p...)
	c.cond.Broadcast()
	c.mu.Unlock()
}

func (c *BufConn) LocalAddr() net.Addr                { return c.local }
func (c *BufConn) RemoteAddr() net.Addr               { return c.remote }
func (c *BufConn) SetDeadline(t time.Time) error      { return nil }
func (c *BufConn) SetReadDeadline(t time.Time) error  { return nil }
func (c *BufConn) SetWriteDeadline(t time.Time) error { return nil }
