package kit

import (
	"context"
	"fmt"

	"github.com/bbockelm/cedar/stream"
)

// Pair is two real cedar streams joined by a non-blocking in-memory pipe, so a
// single goroutine can drive "send on A, receive on B" deterministically.
type Pair struct {
	A, B   *stream.Stream
	CA, CB *MemConn
	Key    []byte
	// Cleartext frames seen per direction before the key was installed (raw
	// wire bytes, header included) -- input of the reference digests.
	ClearAB, ClearBA Digest
}

func NewPair() *Pair {
	ca, cb := NewMemPipe()
	ca.RecordWrites, cb.RecordWrites = true, true
	return &Pair{A: stream.NewStream(ca), B: stream.NewStream(cb), CA: ca, CB: cb}
}

var Bg = context.Background()

// ClearExchange sends one cleartext message A->B (dir 0) or B->A (dir 1) as the
// given list of frames (all but the last partial) and receives it on the other
// side, so both digests advance identically.
func (p *Pair) ClearExchange(dir int, frames [][]byte) error {
	s, r, sc := p.A, p.B, p.CA
	dg := &p.ClearAB
	if dir == 1 {
		s, r, sc = p.B, p.A, p.CB
		dg = &p.ClearBA
	}
	n0 := len(sc.WriteLog)
	for i, f := range frames {
		var err error
		if i == len(frames)-1 {
			err = s.SendMessage(Bg, f)
		} else {
			err = s.SendPartialMessage(Bg, f)
		}
		if err != nil {
			return err
		}
	}
	for _, w := range sc.WriteLog[n0:] {
		dg.AddFrame(w)
	}
	_, err := r.ReceiveCompleteMessage(Bg)
	return err
}

// SetKey installs the same key on both ends.
func (p *Pair) SetKey(key []byte) error {
	p.Key = key
	if err := p.A.SetSymmetricKey(key); err != nil {
		return err
	}
	return p.B.SetSymmetricKey(key)
}

// Pattern fills a buffer with a cheap position-dependent pattern so that any
// misplaced, dropped or duplicated byte is visible.
func Pattern(n int, salt uint32) []byte {
	b := make([]byte, n)
	x := salt*2654435761 + 12345
	for i := range b {
		x = x*1664525 + 1013904223
		b[i] = byte(x >> 24)
	}
	return b
}

// FirstDiff describes the first difference between two byte strings.
func FirstDiff(a, b []byte) string {
	n := len(a)
	if len(b) < n {
		n = len(b)
	}
	for i := 0; i < n; i++ {
		if a[i] != b[i] {
			return fmt.Sprintf("len %d vs %d, first difference at offset %d", len(a), len(b), i)
		}
	}
	return fmt.Sprintf("len %d vs %d, common prefix equal", len(a), len(b))
}
