package kit

import (
	"context"
	"encoding/binary"
	"fmt"
	"io"
	"sync"
	"sync/atomic"
	"time"

	"github.com/bbockelm/cedar/security"
	"github.com/bbockelm/cedar/stream"
)

// A frame-aware man-in-the-middle between a real client and a real server.
// mutate is called for every frame (direction 0 = client->server, 1 =
// server->client; idx = index of the frame in that direction) and returns the
// frames to forward in its place (nil = forward unchanged).

type MITMResult struct {
	CNeg, SNeg     *security.SecurityNegotiation
	CErr, SErr     error
	COK, SOK       bool
	CAccept        bool // the client accepted an application message after success
	SAccept        bool
	Idle           bool // ended by the idle watchdog (blocked exchange): inconclusive
	Frames         [2][][]byte // frames as sent by the endpoints
	CStream, SStream *stream.Stream
}

func readWireFrame(r io.Reader) ([]byte, error) {
	hdr := make([]byte, 5)
	if _, err := io.ReadFull(r, hdr); err != nil {
		return nil, err
	}
	n := int(binary.BigEndian.Uint32(hdr[1:5]))
	if n > 1<<21 {
		return nil, fmt.Errorf("relay: absurd frame length %d", n)
	}
	body := make([]byte, n)
	if _, err := io.ReadFull(r, body); err != nil {
		return nil, err
	}
	return append(hdr, body...), nil
}

// RunMITM performs a client and a server handshake through the relay, then lets
// each side that reported success send one application message and try to read one.
func RunMITM(ccfg, scfg *security.SecurityConfig, mutate func(dir, idx int, frame []byte) [][]byte) *MITMResult {
	pa, pb := NextPorts()
	cc, rc := NewBufPipe(pa, pb)
	rsv, sc := NewBufPipe(pa+1, pb)
	res := &MITMResult{}
	var mu sync.Mutex
	last := time.Now().UnixNano()
	pump := func(dir int, src, dst *BufConn) {
		idx := 0
		for {
			f, err := readWireFrame(src)
			if err != nil {
				_ = dst.Close()
				return
			}
			atomic.StoreInt64(&last, time.Now().UnixNano())
			mu.Lock()
			res.Frames[dir] = append(res.Frames[dir], f)
			mu.Unlock()
			out := [][]byte{f}
			if mutate != nil {
				if o := mutate(dir, idx, f); o != nil {
					out = o
				}
			}
			idx++
			for _, o := range out {
				if _, err := dst.Write(o); err != nil {
					return
				}
			}
		}
	}
	go pump(0, rc, rsv)
	go pump(1, rsv, rc)
	ctx, cancel := context.WithTimeout(context.Background(), 3*time.Second)
	defer cancel()
	app := func(st *stream.Stream, who string) bool {
		if err := st.SendMessage(ctx, []byte("APPLICATION-DATA-from-"+who)); err != nil {
			return false
		}
		_, err := st.ReceiveCompleteMessage(ctx)
		return err == nil
	}
	var wg sync.WaitGroup
	wg.Add(2)
	go func() {
		defer wg.Done()
		res.CStream = stream.NewStream(cc)
		res.CNeg, res.CErr = security.NewAuthenticator(ccfg, res.CStream).ClientHandshake(ctx)
		if res.CErr != nil {
			_ = cc.Close()
			return
		}
		res.COK = true
		res.CAccept = app(res.CStream, "client")
	}()
	go func() {
		defer wg.Done()
		res.SStream = stream.NewStream(sc)
		res.SNeg, res.SErr = security.NewAuthenticator(scfg, res.SStream).ServerHandshake(ctx)
		if res.SErr != nil {
			_ = sc.Close()
			return
		}
		res.SOK = true
		res.SAccept = app(res.SStream, "server")
	}()
	done := make(chan struct{})
	go func() { wg.Wait(); close(done) }()
	tick := time.NewTicker(25 * time.Millisecond)
	defer tick.Stop()
loop:
	for {
		select {
		case <-done:
			break loop
		case <-tick.C:
			if time.Since(time.Unix(0, atomic.LoadInt64(&last))) > 250*time.Millisecond {
				res.Idle = true
				cancel()
				_ = cc.Close()
				_ = sc.Close()
				<-done
				break loop
			}
		}
	}
	_ = cc.Close()
	_ = sc.Close()
	return res
}
