package kit

import (
	"crypto/sha256"
	"encoding/hex"
	"encoding/json"
	"fmt"
	"hash/fnv"
	"io"
	"log/slog"
	"os"
	"path/filepath"
	"sort"
	"strconv"
	"strings"
	"sync"
	"testing"
	"time"
)

// Evidence collects, per property, what a run really covered. Every test
// process writes one fragment; the driver merges fragments of all shards.
type Evidence struct {
	mu          sync.Mutex
	ID          string
	evals       int64
	nontrivial  map[uint64]struct{}
	classes     map[string]int64
	counters    map[string]int64
	samples     []any
	sampleSeen  map[string]int
	exhaustive  []string
	rules       []string
	assumptions []string
	known       map[string]int64
	start       time.Time
}

var (
	evMu  sync.Mutex
	evAll = map[string]*Evidence{}
)

// Ev returns the process-wide collector for a property id.
func Ev(id string) *Evidence {
	evMu.Lock()
	defer evMu.Unlock()
	e := evAll[id]
	if e == nil {
		e = &Evidence{ID: id, nontrivial: map[uint64]struct{}{}, classes: map[string]int64{},
			counters: map[string]int64{}, sampleSeen: map[string]int{}, known: map[string]int64{}, start: time.Now()}
		evAll[id] = e
	}
	return e
}

func hash64(s string) uint64 {
	h := fnv.New64a()
	_, _ = io.WriteString(h, s)
	return h.Sum64()
}

// Case records one executed case. class feeds the generator-distribution
// histogram; key is the case fingerprint when the case is non-trivial by the
// property's stated rule, "" otherwise.
func (e *Evidence) Case(class, key string) {
	e.mu.Lock()
	e.evals++
	if class != "" {
		e.classes[class]++
	}
	if key != "" {
		e.nontrivial[hash64(key)] = struct{}{}
	}
	e.mu.Unlock()
}

// Nontrivial records a distinct non-trivial key without counting an evaluation.
func (e *Evidence) Nontrivial(key string) {
	e.mu.Lock()
	e.nontrivial[hash64(key)] = struct{}{}
	e.mu.Unlock()
}

// Class adds to the histogram without counting an evaluation.
func (e *Evidence) Class(class string) {
	e.mu.Lock()
	e.classes[class]++
	e.mu.Unlock()
}

// Count adds n to a named counter.
func (e *Evidence) Count(name string, n int64) {
	e.mu.Lock()
	e.counters[name] += n
	e.mu.Unlock()
}

// Sample keeps up to 4 literal sample cases per group.
func (e *Evidence) Sample(group string, v any) {
	e.mu.Lock()
	if e.sampleSeen[group] < 4 {
		e.sampleSeen[group]++
		e.samples = append(e.samples, map[string]any{"group": group, "case": v})
	}
	e.mu.Unlock()
}

// Rule states how cases are generated and what makes one non-trivial.
func (e *Evidence) Rule(r string) {
	e.mu.Lock()
	for _, x := range e.rules {
		if x == r {
			e.mu.Unlock()
			return
		}
	}
	e.rules = append(e.rules, r)
	e.mu.Unlock()
}

// Exhaustive names a finite sub-space this run enumerated completely.
func (e *Evidence) Exhaustive(what string) {
	e.mu.Lock()
	e.exhaustive = append(e.exhaustive, what)
	e.mu.Unlock()
}

func (e *Evidence) Assume(a string) {
	e.mu.Lock()
	for _, x := range e.assumptions {
		if x == a {
			e.mu.Unlock()
			return
		}
	}
	e.assumptions = append(e.assumptions, a)
	e.mu.Unlock()
}

type fragment struct {
	ID          string           `json:"id"`
	Evals       int64            `json:"evals"`
	Nontrivial  []uint64         `json:"nontrivial"`
	Classes     map[string]int64 `json:"classes"`
	Counters    map[string]int64 `json:"counters"`
	Samples     []any            `json:"samples"`
	Exhaustive  []string         `json:"exhaustive"`
	Rules       []string         `json:"rules"`
	Assumptions []string         `json:"assumptions"`
	Known       map[string]int64 `json:"known"`
	WallS       float64          `json:"wall_s"`
}

func outDir() string {
	d := os.Getenv("VERIF_OUT")
	if d == "" {
		d = filepath.Join(os.TempDir(), "verif-out")
	}
	_ = os.MkdirAll(d, 0o755)
	return d
}

// Root is the /verif directory.
func Root() string {
	if d := os.Getenv("VERIF_ROOT"); d != "" {
		return d
	}
	return "/verif"
}

func (e *Evidence) flush() {
	e.mu.Lock()
	defer e.mu.Unlock()
	f := fragment{ID: e.ID, Evals: e.evals, Classes: e.classes, Counters: e.counters, Samples: e.samples,
		Exhaustive: e.exhaustive, Rules: e.rules, Assumptions: e.assumptions, Known: e.known,
		WallS: time.Since(e.start).Seconds()}
	for h := range e.nontrivial {
		f.Nontrivial = append(f.Nontrivial, h)
	}
	sort.Slice(f.Nontrivial, func(i, j int) bool { return f.Nontrivial[i] < f.Nontrivial[j] })
	b, _ := json.Marshal(f)
	name := fmt.Sprintf("%s.%d.%d.frag.json", e.ID, os.Getpid(), time.Now().UnixNano())
	_ = os.WriteFile(filepath.Join(outDir(), name), b, 0o644)
}

var atExit []func()

// AtExit registers a cleanup to run after the tests, before the process exits.
func AtExit(f func()) { atExit = append(atExit, f) }

// Main is the TestMain body shared by all property packages.
func Main(m *testing.M) {
	slog.SetDefault(slog.New(slog.NewTextHandler(io.Discard, &slog.HandlerOptions{Level: slog.LevelError + 10})))
	// A fuzz worker's stdout is a pipe nobody drains: cedar's own fmt.Printf
	// diagnostics (FS and token paths) would block the worker once it fills.
	for _, a := range os.Args {
		if strings.HasPrefix(a, "-test.fuzzworker") {
			if dn, err := os.OpenFile(os.DevNull, os.O_WRONLY, 0); err == nil {
				os.Stdout = dn
			}
		}
	}
	code := m.Run()
	for _, f := range atExit {
		f()
	}
	evMu.Lock()
	for _, e := range evAll {
		e.flush()
	}
	evMu.Unlock()
	os.Exit(code)
}

// Seed is VERIF_SEED (0 is remapped to 1) combined with the shard number.
func Seed() int64 {
	s, _ := strconv.ParseInt(os.Getenv("VERIF_SEED"), 10, 64)
	if s == 0 {
		s = 1
	}
	return s*64 + int64(Shard())
}

func Shard() int {
	s, _ := strconv.Atoi(os.Getenv("VERIF_SHARD"))
	return s
}

func NShards() int {
	s, _ := strconv.Atoi(os.Getenv("VERIF_NSHARDS"))
	if s <= 0 {
		s = 1
	}
	return s
}

// Thorough reports whether the thorough tier is running.
func Thorough() bool { return os.Getenv("VERIF_TIER") == "thorough" }

// Scale returns q in the quick tier and t in the thorough tier.
func Scale(q, t int) int {
	if Thorough() {
		return t
	}
	return q
}

// ---------------------------------------------------------------------------
// Violations and known findings
// ---------------------------------------------------------------------------

type knownFinding struct {
	Property  string `json:"property"`
	Signature string `json:"signature"`
	Status    string `json:"status"`
	What      string `json:"what"`
	Commit    string `json:"commit,omitempty"`
}

var (
	kfOnce sync.Once
	kfList []knownFinding
)

func loadKnown() {
	b, err := os.ReadFile(filepath.Join(Root(), "known_findings.json"))
	if err != nil {
		return
	}
	_ = json.Unmarshal(b, &kfList)
}

// Known reports whether (property, signature) is listed with status "known".
// When it is, the occurrence is counted and announced once per process.
func (e *Evidence) Known(signature string) bool {
	kfOnce.Do(loadKnown)
	for _, k := range kfList {
		if k.Property == e.ID && k.Signature == signature && k.Status == "known" {
			e.mu.Lock()
			first := e.known[signature] == 0
			e.known[signature]++
			e.mu.Unlock()
			if first {
				appendLine(fmt.Sprintf("KNOWN-FINDING: property=%s %s: %s", e.ID, signature, k.What))
			}
			return true
		}
	}
	return false
}

var lineMu sync.Mutex

func appendLine(s string) {
	lineMu.Lock()
	defer lineMu.Unlock()
	f, err := os.OpenFile(filepath.Join(outDir(), "lines.txt"), os.O_APPEND|os.O_CREATE|os.O_WRONLY, 0o644)
	if err == nil {
		_, _ = f.WriteString(s + "\n")
		_ = f.Close()
	}
	fmt.Println(s)
}

// Violation records an oracle failure of a non-rapid (enumerated / replayed)
// case: it writes a JSON replay file under /verif/replays and emits the
// VIOLATION line. It returns the replay path. The caller still fails the test.
func Violation(id, what string, replay any) string {
	b, _ := json.MarshalIndent(map[string]any{"property": id, "what": what, "case": replay}, "", " ")
	sum := sha256.Sum256(b)
	dir := filepath.Join(Root(), "replays")
	_ = os.MkdirAll(dir, 0o755)
	p := filepath.Join(dir, fmt.Sprintf("%s-%s.json", id, hex.EncodeToString(sum[:6])))
	_ = os.WriteFile(p, b, 0o644)
	appendLine(fmt.Sprintf("VIOLATION property=%s replay=%s", id, p))
	fmt.Printf("  what: %s\n", what)
	return p
}

// ReplayCase loads the "case" member of a JSON replay file named by VERIF_REPLAY.
func ReplayCase(into any) (bool, error) {
	p := os.Getenv("VERIF_REPLAY")
	if p == "" {
		return false, nil
	}
	b, err := os.ReadFile(p)
	if err != nil {
		return true, err
	}
	var w struct {
		Case json.RawMessage `json:"case"`
	}
	if err := json.Unmarshal(b, &w); err != nil {
		return true, err
	}
	return true, json.Unmarshal(w.Case, into)
}
