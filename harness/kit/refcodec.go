package kit

import (
	"crypto/aes"
	"crypto/cipher"
	"crypto/sha256"
	"encoding/binary"
	"errors"
	"fmt"
)

// Reference implementation of the CEDAR frame format and of the AES-256-GCM
// frame protection, written from protocol/CEDAR_PROTOCOL.md and the property
// texts. It deliberately shares no code with cedar's stream package; it uses
// only the Go standard library.
//
//   frame   = end(1) | be32(len(body)) | body
//   body    = payload                                  (cleartext)
//           = [baseIV(16) if counter==0] | GCM(key, nonce, payload, aad)
//   nonce   = baseIV with its leading 32-bit word replaced by word+counter
//   aad     = [D(sender->receiver) | D(receiver->sender) if first protected frame
//             in this direction] | header(5)
//   D(dir)  = SHA-256 over header|payload of every cleartext frame sent in that
//             direction before protection started, or 32 zero bytes if none.

const (
	RefHeaderLen = 5
	RefMaxFrame  = 1024 * 1024
)

// WireFrame is one frame as found on the wire.
type WireFrame struct {
	End  byte
	Body []byte // bytes after the header, exactly as on the wire
	Raw  []byte // header + body
}

func (f WireFrame) Header() []byte { return f.Raw[:RefHeaderLen] }

// BuildFrame builds a cleartext wire frame.
func BuildFrame(end byte, body []byte) []byte {
	out := make([]byte, RefHeaderLen+len(body))
	out[0] = end
	binary.BigEndian.PutUint32(out[1:5], uint32(len(body)))
	copy(out[5:], body)
	return out
}

// ParseFrames splits b into complete frames; rest is the unparsable tail.
func ParseFrames(b []byte) (frames []WireFrame, rest []byte) {
	for len(b) >= RefHeaderLen {
		n := int(binary.BigEndian.Uint32(b[1:5]))
		if n > len(b)-RefHeaderLen {
			break
		}
		raw := b[:RefHeaderLen+n]
		frames = append(frames, WireFrame{End: b[0], Body: raw[RefHeaderLen:], Raw: raw})
		b = b[RefHeaderLen+n:]
	}
	return frames, b
}

// Digest accumulates the handshake digest of one direction.
type Digest struct {
	h    [][]byte
	used bool
}

func (d *Digest) AddFrame(raw []byte) { d.h = append(d.h, append([]byte(nil), raw...)); d.used = true }

// Sum returns SHA-256 of everything added, or 32 zero bytes if nothing was.
func (d *Digest) Sum() []byte {
	if !d.used {
		return make([]byte, 32)
	}
	s := sha256.New()
	for _, x := range d.h {
		s.Write(x)
	}
	return s.Sum(nil)
}

// RefDir is the protection state of one direction of one connection.
type RefDir struct {
	gcm     cipher.AEAD
	BaseIV  [16]byte
	Ctr     uint32
	HaveIV  bool // receiver: base IV learnt; sender: base IV chosen
	AADDone bool // first-frame digests already consumed
	// Nonces records every nonce used, for the uniqueness audit.
	Nonces [][16]byte
}

func NewRefDir(key []byte) (*RefDir, error) {
	if len(key) != 32 {
		return nil, fmt.Errorf("ref: key must be 32 bytes")
	}
	blk, err := aes.NewCipher(key)
	if err != nil {
		return nil, err
	}
	g, err := cipher.NewGCMWithNonceSize(blk, 16)
	if err != nil {
		return nil, err
	}
	return &RefDir{gcm: g}, nil
}

func (d *RefDir) nonce() [16]byte {
	var n [16]byte
	copy(n[:], d.BaseIV[:])
	w := binary.BigEndian.Uint32(d.BaseIV[:4]) + d.Ctr
	binary.BigEndian.PutUint32(n[:4], w)
	return n
}

func (d *RefDir) aad(header, digFwd, digBack []byte) []byte {
	if !d.AADDone {
		a := make([]byte, 0, 69)
		a = append(a, digFwd...)
		a = append(a, digBack...)
		return append(a, header...)
	}
	return append([]byte(nil), header...)
}

// Seal builds the protected wire frame for payload. digFwd is the digest of the
// cleartext this direction carried, digBack that of the opposite direction; they
// are only used for the first protected frame.
func (d *RefDir) Seal(end byte, payload, digFwd, digBack []byte) []byte {
	bodyLen := len(payload) + 16
	sendIV := d.Ctr == 0
	if sendIV {
		bodyLen += 16
	}
	hdr := make([]byte, RefHeaderLen)
	hdr[0] = end
	binary.BigEndian.PutUint32(hdr[1:5], uint32(bodyLen))
	n := d.nonce()
	ct := d.gcm.Seal(nil, n[:], payload, d.aad(hdr, digFwd, digBack))
	d.Nonces = append(d.Nonces, n)
	d.AADDone = true
	d.Ctr++
	out := append([]byte(nil), hdr...)
	if sendIV {
		out = append(out, d.BaseIV[:]...)
	}
	return append(out, ct...)
}

var ErrRefAuth = errors.New("ref: frame does not authenticate")

// Open opens one protected wire frame (receiver role).
func (d *RefDir) Open(f WireFrame, digFwd, digBack []byte) ([]byte, error) {
	body := f.Body
	if d.Ctr == 0 && !d.HaveIV {
		if len(body) < 16 {
			return nil, fmt.Errorf("ref: first frame too short for IV")
		}
		copy(d.BaseIV[:], body[:16])
		d.HaveIV = true
		body = body[16:]
	}
	if len(body) < 16 {
		return nil, fmt.Errorf("ref: frame too short for tag")
	}
	n := d.nonce()
	pt, err := d.gcm.Open(nil, n[:], body, d.aad(f.Header(), digFwd, digBack))
	if err != nil {
		return nil, ErrRefAuth
	}
	d.Nonces = append(d.Nonces, n)
	d.AADDone = true
	d.Ctr++
	if pt == nil {
		pt = []byte{}
	}
	return pt, nil
}
