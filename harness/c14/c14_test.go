// Package c14 decides property C14: typed values use HTCondor's byte layout
// and decode identically wherever frame boundaries fall.
package c14

import (
	"time"
	"context"
	"bytes"
	"encoding/json"
	"fmt"
	"io"
	"math"
	"strings"
	"testing"
	"unicode/utf8"

	"github.com/bbockelm/cedar/message"
	"github.com/bbockelm/cedar/stream"
	"pgregory.net/rapid"

	"verifharness/kit"
)

func TestMain(m *testing.M) { kit.Main(m) }

var ev = kit.Ev("C14")

func init() {
	ev.Rule("a case = 1-12 typed values (int/int32/int64/uint32 at type boundaries and random, finite doubles from random bit patterns incl. subnormals and exponent extremes, " +
		"floats, chars, NUL-free valid UTF-8 strings of 0-40000 bytes, a few of 1.1 MiB) x {plain, AES}; oracle 1: bytes emitted by Put*/Code* equal the independent encoder's bytes; " +
		"oracle 2: the plaintext re-cut into two frames at EVERY position (every pair of cuts for <=64 bytes; 64 sampled cuts above 400 bytes) decodes with Get*/Code* to the same values " +
		"(doubles within |x|*2^-30 + 2^-1074); non-trivial = >=2 value types and a cut strictly inside a value; distinct by (values, mode)")
	ev.Assume("reference frexp works on IEEE-754 bits; in AES mode frames are opened/sealed by the reference codec (kit.RefDir)")
}

type Val struct {
	T string `json:"t"`
	I int64  `json:"i,omitempty"`
	F uint64 `json:"f,omitempty"` // float64 bits
	S string `json:"s,omitempty"`
	N int    `json:"n,omitempty"` // for generated long strings: length (content derived)
}

type Case struct {
	AES  bool  `json:"aes"`
	// KeyOff (with AES): key installed, crypto mode switched off again: cleartext layout on a keyed stream
	KeyOff bool `json:"key_off,omitempty"`
	Code bool  `json:"code"` // use Code* wrappers instead of Put*/Get*
	Vals []Val `json:"vals"`
	// Bytes: strings are handed to PutStringBytes as back-to-back sub-slices of ONE scratch buffer holding all the
	// case's strings (the allocation-free use that API exists for); the buffer must come back unchanged
	Bytes bool `json:"bytes,omitempty"`
	// Ctx: 0 context.Background(), 1 cancellable (never cancelled), 2 far deadline
	Ctx int `json:"ctx,omitempty"`
}

func (v Val) str() string {
	if v.N > 0 {
		// long strings are described by length only; content is a repeating valid-UTF-8 pattern
		unit := "aé€𝄞z"
		s := strings.Repeat(unit, v.N/len(unit)+1)[:v.N]
		for !utf8.ValidString(s) {
			s = s[:len(s)-1]
		}
		return s
	}
	return v.S
}

func (v Val) ref(aes bool) []byte {
	switch v.T {
	case "int", "int64":
		return kit.RefInt64(v.I)
	case "int32":
		return kit.RefInt64(int64(int32(v.I)))
	case "uint32":
		return kit.RefInt64(int64(uint32(v.I)))
	case "double":
		return kit.RefDouble(math.Float64frombits(v.F))
	case "float":
		return kit.RefDouble(float64(float32(math.Float64frombits(v.F))))
	case "char":
		return []byte{byte(v.I)}
	case "string":
		return kit.RefString(v.str(), aes)
	}
	panic("bad type " + v.T)
}

func put(m *message.Message, v Val, code bool) error {
	switch v.T {
	case "int":
		x := int(v.I)
		if code {
			return m.CodeInt(cx, &x)
		}
		return m.PutInt(cx, x)
	case "int64":
		x := v.I
		if code {
			return m.CodeInt64(cx, &x)
		}
		return m.PutInt64(cx, x)
	case "int32":
		x := int32(v.I)
		if code {
			return m.CodeInt32(cx, &x)
		}
		return m.PutInt32(cx, x)
	case "uint32":
		return m.PutUint32(cx, uint32(v.I))
	case "double":
		x := math.Float64frombits(v.F)
		if code {
			return m.CodeDouble(cx, &x)
		}
		return m.PutDouble(cx, x)
	case "float":
		x := float32(math.Float64frombits(v.F))
		if code {
			return m.CodeFloat(cx, &x)
		}
		return m.PutFloat(cx, x)
	case "char":
		x := byte(v.I)
		if code {
			return m.CodeChar(cx, &x)
		}
		return m.PutChar(cx, x)
	case "string":
		x := v.str()
		if code {
			return m.CodeString(cx, &x)
		}
		return m.PutString(cx, x)
	}
	return fmt.Errorf("bad type")
}

func closeEnough(want, got float64, rel float64) bool {
	if want == got {
		return true
	}
	return math.Abs(want-got) <= math.Abs(want)*rel+math.SmallestNonzeroFloat64*2
}

// get decodes one value and compares it with v.
func get(m *message.Message, v Val, code bool) string {
	switch v.T {
	case "int":
		var x int
		var err error
		if code {
			err = m.CodeInt(cx, &x)
		} else {
			x, err = m.GetInt(cx)
		}
		if err != nil || int64(x) != v.I {
			return fmt.Sprintf("int: want %d got %d err %v", v.I, x, err)
		}
	case "int64":
		var x int64
		var err error
		if code {
			err = m.CodeInt64(cx, &x)
		} else {
			x, err = m.GetInt64(cx)
		}
		if err != nil || x != v.I {
			return fmt.Sprintf("int64: want %d got %d err %v", v.I, x, err)
		}
	case "int32":
		var x int32
		var err error
		if code {
			err = m.CodeInt32(cx, &x)
		} else {
			x, err = m.GetInt32(cx)
		}
		if err != nil || x != int32(v.I) {
			return fmt.Sprintf("int32: want %d got %d err %v", int32(v.I), x, err)
		}
	case "uint32":
		x, err := m.GetUint32(cx)
		if err != nil || x != uint32(v.I) {
			return fmt.Sprintf("uint32: want %d got %d err %v", uint32(v.I), x, err)
		}
	case "double":
		var x float64
		var err error
		if code {
			err = m.CodeDouble(cx, &x)
		} else {
			x, err = m.GetDouble(cx)
		}
		w := math.Float64frombits(v.F)
		if err != nil || !closeEnough(w, x, 1.0/(1<<30)) {
			return fmt.Sprintf("double: want %g got %g err %v", w, x, err)
		}
	case "float":
		var x float32
		var err error
		if code {
			err = m.CodeFloat(cx, &x)
		} else {
			x, err = m.GetFloat(cx)
		}
		w := float32(math.Float64frombits(v.F))
		if err != nil || !closeEnough(float64(w), float64(x), 1.0/(1<<22)) {
			return fmt.Sprintf("float: want %g got %g err %v", w, x, err)
		}
	case "char":
		var x byte
		var err error
		if code {
			err = m.CodeChar(cx, &x)
		} else {
			x, err = m.GetChar(cx)
		}
		if err != nil || x != byte(v.I) {
			return fmt.Sprintf("char: want %d got %d err %v", byte(v.I), x, err)
		}
	case "string":
		var x string
		var err error
		if code {
			err = m.CodeString(cx, &x)
		} else {
			x, err = m.GetString(cx)
		}
		w := v.str()
		if err != nil || x != w {
			return fmt.Sprintf("string: want len %d got len %d err %v (%s)", len(w), len(x), err, kit.FirstDiff([]byte(w), []byte(x)))
		}
	}
	return ""
}

type stats struct {
	cuts       int
	insideCuts int
	plainLen   int
}

// cx is the context every call of the current case gets (cases run one at a time)
var cx = context.Background()

func runCase(c Case) (string, stats) {
	var st stats
	// the context: background, cancellable but never cancelled, or with a far deadline (the stream reads and
	// writes differently under a context that can end)
	cx = context.Background()
	switch c.Ctx {
	case 1:
		var cancel context.CancelFunc
		cx, cancel = context.WithCancel(context.Background())
		defer cancel()
	case 2:
		var cancel context.CancelFunc
		cx, cancel = context.WithTimeout(context.Background(), time.Hour)
		defer cancel()
	}
	key := kit.Pattern(32, 4242)
	enc := c.AES && !c.KeyOff // frames are protected and strings carry their length prefix
	keyed := func(s *stream.Stream) error {
		if !c.AES {
			return nil
		}
		if err := s.SetSymmetricKey(key); err != nil {
			return err
		}
		if c.KeyOff {
			s.SetCryptoMode(false)
		}
		return nil
	}
	// --- encode with the real sender ---
	ca := kit.NewMemConn()
	ca.RecordWrites = true
	A := stream.NewStream(ca)
	if err := keyed(A); err != nil {
		return err.Error(), st
	}
	msg := message.NewMessageForStream(A)
	var want []byte
	var bounds []int // value boundaries in the plaintext
	var scratch []byte
	if c.Bytes {
		for _, v := range c.Vals {
			if v.T == "string" {
				scratch = append(scratch, v.str()...)
			}
		}
	}
	scratchBefore := append([]byte(nil), scratch...)
	off := 0
	for i, v := range c.Vals {
		var err error
		if c.Bytes && v.T == "string" {
			x := v.str()
			if k := strings.IndexByte(x, 0); k >= 0 {
				// (a NUL ends the string on the wire: the slice handed over stops there, as PutString would)
				err = msg.PutStringBytes(cx, scratch[off:off+k])
			} else {
				err = msg.PutStringBytes(cx, scratch[off:off+len(x)])
			}
			off += len(x)
		} else {
			err = put(msg, v, c.Code)
		}
		if err != nil {
			return fmt.Sprintf("encoding value %d (%s) failed: %v", i, v.T, err), st
		}
		want = append(want, v.ref(enc)...)
		bounds = append(bounds, len(want))
	}
	if err := msg.FinishMessage(cx); err != nil {
		return "FinishMessage: " + err.Error(), st
	}
	if !bytes.Equal(scratch, scratchBefore) {
		return "the encoder changed the caller's buffer (strings handed over as sub-slices of one scratch buffer): " + kit.FirstDiff(scratchBefore, scratch), st
	}
	// --- oracle 1: layout ---
	var got []byte
	var rd *kit.RefDir
	if enc {
		rd, _ = kit.NewRefDir(key)
	}
	zero := make([]byte, 32)
	nframes := 0
	for _, w := range ca.WriteLog {
		fr, rest := kit.ParseFrames(w)
		if len(fr) != 1 || len(rest) != 0 {
			return "sender wrote something that is not one frame per write", st
		}
		nframes++
		if enc {
			pt, err := rd.Open(fr[0], zero, zero)
			if err != nil {
				return "reference codec cannot open the sender's frame: " + err.Error(), st
			}
			got = append(got, pt...)
		} else {
			got = append(got, fr[0].Body...)
		}
	}
	if !bytes.Equal(got, want) {
		return fmt.Sprintf("encoded bytes differ from the reference layout: %s", describeDiff(c, want, got, bounds)), st
	}
	st.plainLen = len(want)
	// --- oracle 2: boundary independence ---
	cb := kit.NewMemConn()
	if len(want) < 100000 {
		cb.MaxRead = []int{0, 1, 3, 0, 7}[len(want)%5] // the re-cut frames additionally trickle in a few bytes per Read
	}
	B := stream.NewStream(cb)
	var hs *kit.RefDir
	if err := keyed(B); err != nil {
		return err.Error(), st
	}
	if enc {
		hs, _ = kit.NewRefDir(key)
		copy(hs.BaseIV[:], kit.Pattern(16, uint32(len(want))))
		hs.HaveIV = true
	}
	// frame builds one logical piece; a piece above the 1 MiB frame limit is cut
	// further (the format bounds every frame).
	frame := func(end byte, p []byte) []byte {
		var out []byte
		for len(p) > 1000000 {
			if enc {
				out = append(out, hs.Seal(0, p[:1000000], zero, zero)...)
			} else {
				out = append(out, kit.BuildFrame(0, p[:1000000])...)
			}
			p = p[1000000:]
		}
		if enc {
			return append(out, hs.Seal(end, p, zero, zero)...)
		}
		return append(out, kit.BuildFrame(end, p)...)
	}
	decode := func(desc string) string {
		m := message.NewMessageFromStream(B)
		for i, v := range c.Vals {
			if d := get(m, v, c.Code); d != "" {
				return fmt.Sprintf("%s: value %d: %s", desc, i, d)
			}
		}
		if _, err := m.GetChar(cx); err != io.EOF {
			return fmt.Sprintf("%s: message does not end after the last value (err=%v)", desc, err)
		}
		if cb.Pending() != 0 {
			return fmt.Sprintf("%s: %d bytes left unread", desc, cb.Pending())
		}
		return ""
	}
	// (a) the sender's own framing through a second real receiver
	{
		cc := kit.NewMemConn()
		C := stream.NewStream(cc)
		_ = keyed(C)
		for _, w := range ca.WriteLog {
			cc.Feed(w)
		}
		m := message.NewMessageFromStream(C)
		for i, v := range c.Vals {
			if d := get(m, v, c.Code); d != "" {
				return fmt.Sprintf("sender framing (%d frames): value %d: %s", nframes, i, d), st
			}
		}
	}
	isBound := map[int]bool{0: true}
	for _, b := range bounds {
		isBound[b] = true
	}
	n := len(want)
	var cuts []int
	if n <= 400 || kit.Thorough() && n <= 4096 {
		for i := 0; i <= n; i++ {
			cuts = append(cuts, i)
		}
	} else {
		seen := map[int]bool{}
		add := func(i int) {
			if i >= 0 && i <= n && !seen[i] {
				seen[i] = true
				cuts = append(cuts, i)
			}
		}
		add(0)
		add(n)
		for _, b := range bounds {
			for d := -9; d <= 9; d++ {
				add(b + d)
			}
		}
		for _, e := range []int{4096, 16384, 32768} {
			add(e - 1)
			add(e)
			add(e + 1)
		}
		step := n/24 + 1
		for i := step; i < n && len(cuts) < 96; i += step {
			add(i)
		}
	}
	for _, cpos := range cuts {
		cb.Feed(frame(0, want[:cpos]))
		cb.Feed(frame(1, want[cpos:]))
		st.cuts++
		if !isBound[cpos] {
			st.insideCuts++
		}
		if d := decode(fmt.Sprintf("cut at %d of %d", cpos, n)); d != "" {
			return d, st
		}
	}
	if n <= 64 {
		for i := 0; i <= n; i++ {
			for j := i; j <= n; j++ {
				cb.Feed(frame(0, want[:i]))
				cb.Feed(frame(0, want[i:j]))
				cb.Feed(frame(1, want[j:]))
				st.cuts++
				if d := decode(fmt.Sprintf("cuts at %d,%d of %d", i, j, n)); d != "" {
					return d, st
				}
			}
		}
	}
	return "", st
}

func describeDiff(c Case, want, got []byte, bounds []int) string {
	d := kit.FirstDiff(want, got)
	off := 0
	for off < len(want) && off < len(got) && want[off] == got[off] {
		off++
	}
	for i, b := range bounds {
		if off < b {
			return fmt.Sprintf("%s (inside value %d of type %s)", d, i, c.Vals[i].T)
		}
	}
	return d
}

var intEdges = []int64{0, 1, -1, 127, 128, 255, 256, -128, -129, 32767, 32768, -32768, -32769, 65535, 65536,
	math.MaxInt32, math.MaxInt32 + 1, math.MinInt32, math.MinInt32 - 1, math.MaxUint32, math.MaxUint32 + 1,
	math.MaxInt64, math.MinInt64, math.MaxInt64 - 1, math.MinInt64 + 1, 1 << 53, -(1 << 53)}

func genVal(t *rapid.T, allowHuge bool) Val {
	k := rapid.IntRange(0, 11).Draw(t, "type")
	genInt := func() int64 {
		if rapid.Bool().Draw(t, "edge") {
			return rapid.SampledFrom(intEdges).Draw(t, "iedge")
		}
		return rapid.Int64().Draw(t, "i")
	}
	switch k {
	case 0:
		return Val{T: "int", I: genInt()}
	case 1:
		return Val{T: "int64", I: genInt()}
	case 2:
		return Val{T: "int32", I: int64(int32(genInt()))}
	case 3:
		return Val{T: "uint32", I: int64(uint32(genInt()))}
	case 4, 5:
		var f float64
		switch rapid.IntRange(0, 5).Draw(t, "fclass") {
		case 0:
			f = rapid.SampledFrom([]float64{0, math.Copysign(0, -1), 1, -1, 0.5, 2147483648, 4294967296.5, 1e300, -1e-300,
				math.MaxFloat64, -math.MaxFloat64, math.SmallestNonzeroFloat64, -math.SmallestNonzeroFloat64,
				2.2250738585072014e-308, 2.225073858507201e-308, 0.1, 1.0 / 3, 2147483647, 2147483646.5, 0.99999999999999989}).Draw(t, "fedge")
		case 1: // subnormal
			f = math.Float64frombits(rapid.Uint64Range(1, 1<<52-1).Draw(t, "sub"))
		default:
			for {
				f = math.Float64frombits(rapid.Uint64().Draw(t, "fbits"))
				if !math.IsNaN(f) && !math.IsInf(f, 0) {
					break
				}
			}
		}
		return Val{T: "double", F: math.Float64bits(f)}
	case 6:
		var f float32
		for {
			f = math.Float32frombits(rapid.Uint32().Draw(t, "f32bits"))
			if f == f && !math.IsInf(float64(f), 0) {
				break
			}
		}
		return Val{T: "float", F: math.Float64bits(float64(f))}
	case 7:
		return Val{T: "char", I: int64(rapid.IntRange(0, 255).Draw(t, "c"))}
	default:
		sc := rapid.IntRange(0, 19).Draw(t, "sclass")
		switch {
		case sc < 10:
			s := strings.ToValidUTF8(strings.ReplaceAll(rapid.StringN(0, 40, -1).Draw(t, "s"), "\x00", ""), "?")
			return Val{T: "string", S: s}
		case sc < 16:
			return Val{T: "string", N: rapid.SampledFrom([]int{1, 400, 4095, 4096, 16375, 16376, 16377, 16383, 16384, 16385, 40000}).Draw(t, "slen")}
		case sc < 17 && allowHuge:
			return Val{T: "string", N: 1100000 + rapid.IntRange(0, 100).Draw(t, "hugelen")}
		default:
			return Val{T: "string", S: rapid.SampledFrom([]string{"", " ", "\x01", "­", "ZKM", "a=b", "\xc2\xad", "\\\"", "日本語"}).Draw(t, "sedge")}
		}
	}
}


func genCase(t *rapid.T) Case {
	c := Case{AES: rapid.Bool().Draw(t, "aes"), Code: rapid.IntRange(0, 3).Draw(t, "code") == 0}
	c.KeyOff = c.AES && rapid.IntRange(0, 3).Draw(t, "keyoff") == 0
	c.Bytes = !c.Code && rapid.IntRange(0, 2).Draw(t, "bytes") == 0
	c.Ctx = rapid.IntRange(0, 2).Draw(t, "ctx")
	n := rapid.IntRange(1, 12).Draw(t, "n")
	huge := rapid.IntRange(0, 39).Draw(t, "hugecase") == 0
	for i := 0; i < n; i++ {
		c.Vals = append(c.Vals, genVal(t, huge))
	}
	return c
}

func record(c Case, st stats) {
	types := map[string]bool{}
	for _, v := range c.Vals {
		types[v.T] = true
		ev.Class("type:" + v.T)
	}
	k := ""
	if len(types) >= 2 && st.insideCuts > 0 {
		b, _ := json.Marshal(c)
		k = string(b)
	}
	class := "plain"
	if c.AES {
		class = "aes"
	}
	ev.Case(class, k)
	ev.Count("recut_decodes", int64(st.cuts))
	ev.Count("cuts_inside_a_value", int64(st.insideCuts))
	if st.plainLen > 16384 {
		ev.Class("multi-frame-message")
	}
}

func TestC14Values(t *testing.T) {
	rapid.Check(t, func(t *rapid.T) {
		c := genCase(t)
		v, st := runCase(c)
		record(c, st)
		if st.plainLen < 300 {
			ev.Sample("values", c)
		}
		if v != "" {
			js, _ := json.Marshal(c)
			if len(js) > 2000 {
				js = js[:2000]
			}
			t.Fatalf("C14 violated: %s\ncase: %s", v, js)
		}
	})
}

// TestC14Edges: every integer edge through every integer type, every float edge, both modes.
func TestC14Edges(t *testing.T) {
	bad := 0
	for _, aes := range []bool{false, true} {
		for _, code := range []bool{false, true} {
			for _, e := range intEdges {
				c := Case{AES: aes, Code: code, Vals: []Val{{T: "char", I: 7}, {T: "int", I: e}, {T: "int64", I: e},
					{T: "int32", I: int64(int32(e))}, {T: "uint32", I: int64(uint32(e))}, {T: "string", S: "x"}}}
				v, st := runCase(c)
				record(c, st)
				if v != "" && bad < 4 {
					bad++
					kit.Violation("C14", v, c)
					t.Errorf("C14 violated: %s", v)
				}
			}
			for exp := -1074; exp <= 1023; exp += 1 {
				if !kit.Thorough() && exp%9 != 0 && exp > -1060 && exp < 1010 {
					continue
				}
				f := math.Ldexp(1, exp)
				c := Case{AES: aes, Code: code, Vals: []Val{{T: "double", F: math.Float64bits(f)}, {T: "double", F: math.Float64bits(-f * 1.5)},
					{T: "char", I: 1}, {T: "double", F: math.Float64bits(math.Nextafter(f, 0))}}}
				v, st := runCase(c)
				record(c, st)
				if v != "" && bad < 4 {
					bad++
					kit.Violation("C14", v, c)
					t.Errorf("C14 violated: %s", v)
				}
			}
		}
	}
	// strings around the 1 MiB frame limit (the value has to be split across frames by the typed layer itself),
	// in all three modes, between two integers
	for _, n := range []int{1048568, 1048576, 1100000} {
		for mode := 0; mode < 3; mode++ {
			c := Case{AES: mode > 0, KeyOff: mode == 2, Vals: []Val{{T: "int", I: -42}, {T: "string", N: n}, {T: "int64", I: 7}}}
			v, st := runCase(c)
			record(c, st)
			if v != "" && bad < 6 {
				bad++
				kit.Violation("C14", v, c)
				t.Errorf("C14 violated: %s", v)
			}
		}
	}
	ev.Exhaustive("strings of 3 lengths around the 1 MiB frame limit x {plain, AES, keyed cleartext}")
	ev.Exhaustive("27 integer boundary values through all four integer types x {plain,AES} x {Put/Get, Code}; powers of two over the whole double exponent range (every 9th in quick, all in thorough)")
}

func TestC14Replay(t *testing.T) {
	var c Case
	ok, err := kit.ReplayCase(&c)
	if !ok {
		t.Skip("no VERIF_REPLAY")
	}
	if err != nil {
		t.Fatal(err)
	}
	if v, _ := runCase(c); v != "" {
		t.Fatalf("C14 violated: %s", v)
	}
}
