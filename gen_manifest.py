#!/usr/bin/env python3
"""Regenerates MANIFEST.json from checks.json and manifest_meta.json (texts per property)."""
import json, os
root = os.path.dirname(os.path.abspath(__file__))
checks = json.load(open(os.path.join(root, "checks.json")))
meta = json.load(open(os.path.join(root, "manifest_meta.json")))
props = [json.loads(l) for l in open(os.path.join(root, "properties.jsonl")) if l.strip()]
out = {
    "version": 1,
    "setup_cmd": "./check setup",
    "hooks": {
        "guard": "verif",
        "enable": "go test -tags verif (the harness module in /verif/harness replaces github.com/bbockelm/cedar with /repo)",
        "baseline_off_cmd": "cd /repo && go test -vet=off -count=1 ./...",
        "source_commits": meta.get("hook_commits", []),
        "add_only": True,
    },
    "engines": [{
        "name": "verifharness", "path": "harness",
        "serves_properties": sorted(checks.keys()),
        "kind_free_text": "Go test packages: pgregory.net/rapid v1.3.0 generators and state machines, exhaustive enumerations of finite sub-spaces, native go fuzz targets (thorough tier only); independent reference codecs/models in harness/kit",
    }],
    "checks": [],
    "not_applicable": [],
    "notes": meta.get("notes", ""),
}
for p in props:
    pid = p["id"]
    if pid in checks and pid in meta["checks"]:
        m = meta["checks"][pid]
        out["checks"].append({
            "property_id": pid,
            "quick_cmd": "./check %s quick" % pid,
            "thorough_cmd": "./check %s thorough" % pid,
            "evidence_file": "evidence/%s.json" % pid,
            "replay_cmd_template": "./check %s replay {path}" % pid,
            "engine": "verifharness",
            "level_claimed": {"category": checks[pid]["level"], "text": m["level_text"], "design_ref": m.get("design_ref", "DESIGN.md section 3, " + pid)},
            "level_note": m["level_note"],
            "technique": m["technique"],
        })
    else:
        out["not_applicable"].append({"property_id": pid, "reason": meta.get("not_applicable", {}).get(pid, "no check registered yet: the harness for this property has not been built in this session (see DESIGN.md section 6 for the order of construction)")})
json.dump(out, open(os.path.join(root, "MANIFEST.json"), "w"), indent=1)
print("checks:", [c["property_id"] for c in out["checks"]])
