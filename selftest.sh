#!/bin/bash
# selftest.sh <tier> <seed> [parallelism]  -- every check of the tier at one VERIF_SEED on the unchanged tree; prints every non-zero exit.
tier=${1:-quick}; seed=${2:-1}; par=${3:-1}
cd /verif
ids=$(python3 -c "import json;print(' '.join(sorted(json.load(open('checks.json')))))")
run() { id=$1; VERIF_SEED=$seed ./check $id $tier > /tmp/selftest.$seed.$id.log 2>&1; rc=$?; echo "$id seed=$seed $tier rc=$rc $(tail -1 /tmp/selftest.$seed.$id.log | cut -c1-110)"; [ $rc -eq 0 ] && rm -f /tmp/selftest.$seed.$id.log; }
export -f run; export seed tier
echo $ids | tr ' ' '\n' | xargs -P $par -I{} bash -c 'run {}'
