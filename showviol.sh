#!/bin/bash
# prints what/case of all JSON replay files for a property
for f in /verif/replays/$1-*.json; do python3 -c "
import json,sys
d=json.load(open('$f')); print(d['what'][:330].replace('\n',' | '), '||', json.dumps(d['case'])[:200])"; done
